// C11: Sqrt is correctly rounded (half-even); Cbrt is within one unit in the last place
// and exact on perfect cubes. Oracle: integer square/cube roots of the scaled coefficient
// (math/big) with a sticky remainder, rounded once by ref.Round.
package c11

import (
	"fmt"
	"math/big"
	"testing"

	"github.com/cockroachdb/apd/v3"
	"pgregory.net/rapid"
	"verif/harness/arith"
	"verif/harness/core"
	"verif/harness/gen"
	"verif/harness/ref"
)

func genCase(t *rapid.T) arith.Case {
	var c arith.Case
	c.Op = []string{"sqrt", "cbrt"}[gen.Pick(t, 2, "op")]
	c.Ctx = gen.Context(t, 60)
	if c.Op == "sqrt" {
		c.Ctx = gen.Context(t, 400) // beyond the 128-digit tables
	}
	arith.FillOperands(t, &c)
	if gen.Pick(t, 2, "plainpower") == 1 {
		// an exact k-th power of a root drawn uniformly among the roots of 1..P digits (the shaped
		// digit patterns above favour 99..9, 10..0 and the like), at an exponent that keeps it exact
		k := 2
		if c.Op == "cbrt" {
			k = 3
		}
		n := rapid.IntRange(1, int(c.Ctx.P)).Draw(t, "pplen")
		if gen.Pick(t, 2, "ppfull") == 0 {
			n = int(c.Ctx.P) // a root that uses the whole precision
		}
		if n > 30 {
			n = rapid.IntRange(1, 30).Draw(t, "pplen2")
		}
		if c.Op == "cbrt" && c.Ctx.P >= 4 && n < 4 && gen.Pick(t, 4, "pp4") != 0 {
			// most contexts have a small precision and most roots drawn for them one or two digits,
			// which an iteration gets right whatever its last step does
			hi := int(c.Ctx.P)
			if hi > 12 {
				hi = 12
			}
			n = rapid.IntRange(4, hi).Draw(t, "pplen4")
		}
		r := gen.DigitsN(t, n, 9, "pproot") // random digits
		if len(r) < 4 && c.Ctx.P >= 4 && gen.Pick(t, 2, "pplong") == 0 {
			r += gen.DigitsN(t, 4-len(r), 9, "ppmore")
		}
		if len(r) >= 3 && gen.Pick(t, 3, "pplow") == 0 {
			// roots in the lowest part of their decade (1.00.. to 1.19..), where a unit of the last
			// place is largest relative to the value and an iteration that stops on a relative
			// criterion is furthest from the root in units
			r = "1" + []string{"0", "0", "0", "1"}[gen.Pick(t, 4, "pplow2")] + r[2:]
			c.Note = "low-decade-root"
		}
		rb, _ := new(big.Int).SetString(r, 10)
		if rb.Sign() == 0 {
			rb.SetInt64(7)
		}
		v := new(big.Int).Exp(rb, big.NewInt(int64(k)), nil)
		c.X = core.Dec{Coeff: v.String(), Exp: int32(k * rapid.IntRange(-20, 20).Draw(t, "ppexp")), Neg: c.Op == "cbrt" && rapid.Bool().Draw(t, "ppneg")}
	}
	if gen.Pick(t, 1500, "hugecoeff") == 1 {
		// a coefficient of tens of thousands of digits at a tiny precision: the operand is
		// about 10^digits times larger than its leading digits suggest, which any scaling by
		// the digit count has to take into account
		n := rapid.IntRange(15000, 40000).Draw(t, "hclen")
		c.X = core.Dec{Coeff: gen.DigitsN(t, n, 9, "hcd"), Exp: int32(rapid.IntRange(-n, 100).Draw(t, "hce")), Neg: c.Op == "cbrt" && rapid.Bool().Draw(t, "hcneg")}
		c.Ctx.P = uint32(rapid.IntRange(1, 3).Draw(t, "hcp"))
		c.Ctx.Emax, c.Ctx.Emin = gen.Limit, -gen.Limit
		c.Ctx.Traps = 0
	}
	if c.X.Coeff == "0" {
		c.X.Coeff = "2"
	}
	if c.Op == "cbrt" && gen.Pick(t, 3, "traps") == 0 {
		// an exact result raises no condition, so no trap set may turn it into an error
		c.Ctx.Traps = rapid.Uint32Range(1, 1<<12-1).Draw(t, "trapset")
	}
	return c
}

func check(c arith.Case, st *core.Stats) error {
	var o arith.Out
	core.Guard(st, func() { o = arith.Exec(c) })
	st.Class("op:" + c.Op)
	limit := arith.NearLimit(c, nil)
	if c.Ctx.Traps != 0 {
		// under traps only the exactness clause is judged: a perfect cube whose root fits is
		// returned exactly with no condition and therefore no error
		ex, exact := ref.CbrtExact(c.X, int64(c.Ctx.P))
		want := ref.Round(ex, c.Ctx)
		if c.Op == "cbrt" && exact && !want.Inexact && want.Form == apd.Finite && !want.Sub && !limit {
			st.NonTrivial("perfect-cube-under-traps")
			if o.Err != nil || o.Res != 0 || !ref.SameValue(o.D, want) {
				return fmt.Errorf("%v: perfect cube whose root %v fits the precision, got %s flags=%s err=%v under traps %s", c, want, core.Show(o.D), core.FlagStr(o.Res), o.Err, core.FlagStr(apd.Condition(c.Ctx.Traps)))
			}
		}
		return nil
	}
	if o.Err != nil {
		if limit {
			return nil
		}
		return fmt.Errorf("%v: unexpected error %v (flags %s)", c, o.Err, core.FlagStr(o.Res))
	}
	if int64(len(c.X.Coeff)) > int64(c.Ctx.P) {
		st.Class("operand-longer-than-P")
	}
	if len(c.X.Coeff) >= 39 {
		st.Class("heap-coefficient")
	}
	// the result written over the operand must be the same value with the same conditions
	var oa arith.Out
	core.Guard(st, func() { x := c.X.Apd(); oa = arith.Call(c.Op, c.Ctx.Apd(), x, x, nil, 0, "") })
	if oa.Err != nil || !core.SameFields(o.D, oa.D) || o.Res != oa.Res {
		return fmt.Errorf("%v: %s flags=%s with a fresh destination, but %s flags=%s err=%v when the destination is the operand",
			c, core.Show(o.D), core.FlagStr(o.Res), core.Show(oa.D), core.FlagStr(oa.Res), oa.Err)
	}
	if c.Op == "sqrt" {
		e := arith.Reference(c)
		if !e.Defined {
			return nil
		}
		_, exact := ref.SqrtExact(c.X, int64(c.Ctx.P))
		switch {
		case exact && !e.R.Inexact:
			st.NonTrivial("perfect-square-representable")
		case exact:
			st.NonTrivial("perfect-square-rounded")
			if e.R.Half == 0 {
				st.Class("exact-tie")
			}
		default:
			st.NonTrivial("irrational-root")
		}
		if e.R.Sub {
			st.Class("subnormal-root")
		}
		if !ref.SameValue(o.D, e.R) {
			return fmt.Errorf("%v: got %s flags=%s, exact root rounds (half-even) to %v", c, core.Show(o.D), core.FlagStr(o.Res), e.R)
		}
		if o.Res.Inexact() != (e.R.Inexact) {
			return fmt.Errorf("%v: got %s flags=%s, but root exactly representable = %v", c, core.Show(o.D), core.FlagStr(o.Res), !e.R.Inexact)
		}
		return nil
	}
	// Cbrt
	ex, exact := ref.CbrtExact(c.X, int64(c.Ctx.P))
	want := ref.Round(ex, c.Ctx)
	if want.Form != apd.Finite || want.Sub || limit {
		st.Class("cbrt-out-of-normal-range")
		return nil // one-ulp accuracy is judged in the normal range
	}
	fits := exact && !want.Inexact
	switch {
	case fits:
		st.NonTrivial("perfect-cube-root-fits")
		if c.Note == "low-decade-root" {
			st.Class("perfect-cube-root-in-the-lowest-fifth-of-its-decade")
		}
		if ref.Mode(c.Ctx.Rounding) == "up" || ref.Mode(c.Ctx.Rounding) == "ceiling" || ref.Mode(c.Ctx.Rounding) == "05up" {
			st.Class("perfect-cube-directed-mode")
		}
		if c.X.Neg {
			st.Class("perfect-cube-negative")
		}
	case exact:
		st.NonTrivial("perfect-cube-rounded")
	default:
		st.NonTrivial("irrational-cube-root")
	}
	if o.D.Form != apd.Finite {
		// One unit above the largest finite value is an overflow: tolerated (within one ulp)
		// exactly when the correctly rounded root is the largest finite number.
		next := new(big.Int).Add(want.Coeff, big.NewInt(1))
		if o.D.Form == apd.Infinite && o.D.Negative == c.X.Neg && !fits && ref.NDigits(next) > int64(c.Ctx.P) &&
			want.Exp+ref.NDigits(want.Coeff)-1 == int64(c.Ctx.Emax) {
			st.Class("cbrt-overflow-within-one-ulp")
			return nil
		}
		return fmt.Errorf("%v: got %s flags=%s, expected a finite value near %v", c, core.Show(o.D), core.FlagStr(o.Res), want)
	}
	if fits {
		if !ref.SameValue(o.D, want) || o.Res.Inexact() {
			return fmt.Errorf("%v: perfect cube whose root %v fits the precision, got %s flags=%s", c, want, core.Show(o.D), core.FlagStr(o.Res))
		}
		if ref.NDigits(want.Coeff) >= 4 {
			// "in every rounding mode": the same operand under the other modes as well (roots of
			// four and more digits, where the iteration has something to get wrong)
			st.Class("perfect-cube-in-all-rounding-modes")
			for _, m := range gen.Modes[:8] {
				if m == c.Ctx.Rounding {
					continue
				}
				cm := c
				cm.Ctx.Rounding = m
				var om arith.Out
				core.Guard(st, func() { om = arith.Exec(cm) })
				if om.Err != nil || !ref.SameValue(om.D, want) || om.Res.Inexact() {
					return fmt.Errorf("%v: perfect cube whose root %v fits the precision, got %s flags=%s err=%v", cm, want, core.Show(om.D), core.FlagStr(om.Res), om.Err)
				}
			}
		}
		return nil
	}
	if !o.Res.Inexact() {
		return fmt.Errorf("%v: got %s flags=%s, but the cube root is not exactly representable (no Inexact)", c, core.Show(o.D), core.FlagStr(o.Res))
	}
	// within one unit in the last place: |result - exact| <= ulp, ulp = 10^(adj(want)-P+1)
	if o.D.Negative != c.X.Neg {
		return fmt.Errorf("%v: got %s, wrong sign", c, core.Show(o.D))
	}
	ulpExp := want.Exp
	if want.Carry {
		ulpExp++ // lenient at a power of ten
	}
	// compare |result| with exact magnitude ex.Num/ex.Den*10^ex.Exp at a common scale
	e0 := ex.Exp
	if int64(o.D.Exponent) < e0 {
		e0 = int64(o.D.Exponent)
	}
	if ulpExp < e0 {
		e0 = ulpExp
	}
	r := new(big.Int).Mul(o.D.Coeff.MathBigInt(), ref.Pow10(int64(o.D.Exponent)-e0))
	r.Mul(r, ex.Den)
	t := new(big.Int).Mul(ex.Num, ref.Pow10(ex.Exp-e0))
	u := new(big.Int).Mul(ref.Pow10(ulpExp-e0), ex.Den)
	diff := new(big.Int).Sub(r, t)
	diff.Abs(diff)
	// ex is floor(root)+1/2 at a scale far finer than the ulp; the true root differs from
	// it by less than one unit of that scale, which is below 10^-10 ulp: add it as slack.
	slack := new(big.Int).Mul(ref.Pow10(ex.Exp-e0), ex.Den)
	if diff.Cmp(new(big.Int).Add(u, slack)) > 0 {
		return fmt.Errorf("%v: got %s flags=%s, more than one unit in the last place from the exact cube root (correctly rounded: %v)", c, core.Show(o.D), core.FlagStr(o.Res), want)
	}
	return nil
}

func TestC11(t *testing.T)       { core.Run(t, "C11", genCase, checkDiff) }
func TestC11Replay(t *testing.T) { core.Replay(t, "C11", checkDiffAll) }

// the model check followed by the differential comparison with Python's decimal module
// (one case in 1 during the search, every case on replay)
var checkDiff = arith.WithDifferential(check, arith.DiffOpts{Value: true, Flags: true}, 1)
var checkDiffAll = arith.WithDifferential(check, arith.DiffOpts{Value: true, Flags: true}, 1)
