// C13: text and binary encodings round-trip every Decimal exactly. Oracle: the round trip
// itself (field-wise equality after re-parsing), strconv for float64 shortest-ness.
package c13

import (
	"fmt"
	"math"
	"math/big"
	"strconv"
	"testing"

	"github.com/cockroachdb/apd/v3"
	"pgregory.net/rapid"
	"verif/harness/arith"
	"verif/harness/core"
	"verif/harness/gen"
	"verif/harness/ref"
)

type Case struct {
	Kind  string      `json:"kind"` // text | compose | float
	X     core.Dec    `json:"x"`
	Dirty core.Dec    `json:"dirty"`
	Cap   int         `json:"cap"`          // decompose buffer capacity
	Bits  uint64      `json:"bits"`         // float64 bit pattern
	Op    *arith.Case `json:"op,omitempty"` // kind "result": the Decimal is what this call returns
}

var resultOps = arith.Gen([]string{"add", "sub", "mul", "quo", "quointeger", "rem", "round", "quantize", "rtie", "reduce", "sqrt", "abs", "neg"}, 40, false)
var resultCostly = arith.Gen([]string{"exp", "ln", "log10", "pow", "cbrt"}, 16, false)

var shapeCtx = core.Ctx{P: 20, Emax: 1000, Emin: -1000}

func genDec(t *rapid.T) core.Dec {
	var d core.Dec
	switch gen.Pick(t, 12, "form") {
	case 0:
		d = core.Dec{Form: int8(1 + gen.Pick(t, 3, "sp")), Coeff: "0", Neg: rapid.Bool().Draw(t, "neg")}
		return d
	case 1: // zero around the plain/scientific special case
		d = core.Dec{Coeff: "0", Neg: rapid.Bool().Draw(t, "neg")}
		d.Exp = int32(rapid.SampledFrom([]int{-2002, -2001, -2000, -1999, -1998, -7, -6, -1, 0, 1, 5, -33, -65, -64, -32, 32, 64}).Draw(t, "ze"))
		if gen.Pick(t, 3, "zr") == 0 {
			d.Exp = int32(rapid.IntRange(-2100, 100).Draw(t, "ze2"))
		}
		return d
	}
	if gen.Pick(t, 900, "hugecoeff") == 1 {
		// about 100000 digits with the lowest legal exponents: every text form must still be
		// readable (Text('E') prints 100000 fraction digits and a small written exponent)
		n := 100000 + rapid.IntRange(-3, 3).Draw(t, "hlen")
		d.Coeff = gen.DigitsN(t, n, gen.Pick(t, 10, "hshape"), "hc")
		d.Neg = rapid.Bool().Draw(t, "hneg")
		d.Exp = int32(-gen.Limit + rapid.IntRange(0, 3).Draw(t, "hoff"))
		return d
	}
	n := 1
	switch gen.Pick(t, 20, "lenk") {
	case 0:
		n = rapid.IntRange(100, 400).Draw(t, "len")
	case 1:
		n = rapid.IntRange(1000, 5000).Draw(t, "len")
	default:
		n = rapid.IntRange(1, 60).Draw(t, "len")
	}
	d.Coeff = gen.DigitsN(t, n, gen.Pick(t, 10, "shape"), "c")
	d.Neg = rapid.Bool().Draw(t, "neg")
	nd := int64(len(d.Coeff))
	switch gen.Pick(t, 6, "expk") {
	case 0: // adjusted exponent around the scientific/plain switch-over
		adj := int64(rapid.IntRange(-9, -4).Draw(t, "adj"))
		d.Exp = int32(adj - nd + 1)
	case 1:
		d.Exp = int32(rapid.IntRange(-2, 2).Draw(t, "e"))
	case 2: // across the whole range
		lo, hi := int64(-gen.Limit), gen.Limit-nd+1
		d.Exp = int32(rapid.Int64Range(lo, hi).Draw(t, "e"))
	case 3: // at the limits
		if rapid.Bool().Draw(t, "top") {
			d.Exp = int32(gen.Limit - nd + 1 - int64(rapid.IntRange(0, 2).Draw(t, "o")))
		} else {
			d.Exp = int32(-gen.Limit + rapid.IntRange(0, 2).Draw(t, "o"))
		}
	case 4: // padding counts that are multiples of 32 and their neighbours
		k := 32*rapid.IntRange(0, 4).Draw(t, "k32") + rapid.IntRange(-1, 1).Draw(t, "k32d")
		if rapid.Bool().Draw(t, "lead") {
			d.Exp = int32(-int64(k) - nd) // k zeros after "0."
		} else if k >= 0 {
			d.Exp = int32(k)
		}
	default:
		d.Exp = int32(rapid.IntRange(-60, 60).Draw(t, "e"))
	}
	return d
}

func genCase(t *rapid.T) Case {
	var c Case
	if gen.Pick(t, 8, "result") == 1 {
		// "for every Decimal" includes the ones operations return: results at the edges of the
		// context's and of the package's exponent range are Decimals too and must print to
		// something that reads back as themselves
		c.Kind = "result"
		var ac arith.Case
		if gen.Pick(t, 5, "rcostly") == 0 {
			ac = resultCostly(t)
		} else {
			ac = resultOps(t)
		}
		if gen.Pick(t, 2, "rlimit") == 0 {
			ac.Ctx.Emax, ac.Ctx.Emin = gen.Limit, -gen.Limit
			if gen.Pick(t, 2, "rjit") == 0 {
				ac.Ctx.Emin += int32(rapid.IntRange(1, int(ac.Ctx.P)+3).Draw(t, "rjitv")) // just above the package limit
			}
			if ac.X.Form == 0 {
				nd := int32(len(ac.X.Coeff))
				switch gen.Pick(t, 3, "redge") {
				case 0:
					ac.X.Exp = -gen.Limit + int32(rapid.IntRange(0, 30).Draw(t, "rlo"))
				case 1:
					ac.X.Exp = gen.Limit - nd + 1 - int32(rapid.IntRange(0, 30).Draw(t, "rhi"))
				}
			}
		}
		c.Op = &ac
		c.X = core.Dec{Coeff: "0"}
		c.Dirty = core.Dec{Coeff: "0"}
		return c
	}
	switch gen.Pick(t, 8, "kind") {
	case 0, 1:
		c.Kind = "compose"
		c.X = genDec(t)
		c.Cap = rapid.SampledFrom([]int{0, 1, 7, 8, 15, 16, 17, 64, 4096}).Draw(t, "cap")
		c.Dirty = gen.Any(t, shapeCtx, "dirty")
	case 2, 3:
		c.Kind = "float"
		switch gen.Pick(t, 6, "fk") {
		case 0: // subnormals
			c.Bits = rapid.Uint64Range(0, 1<<52).Draw(t, "bits")
		case 1: // powers of two and neighbours
			e := uint64(rapid.IntRange(0, 2047).Draw(t, "be"))
			c.Bits = e<<52 + uint64(rapid.IntRange(-2, 2).Draw(t, "bd"))
		case 2:
			c.Bits = []uint64{0, 1 << 63, 0x7FF0000000000000, 0xFFF0000000000000, 0x7FF8000000000001, 0x7FEFFFFFFFFFFFFF, 1, 0x0010000000000000, 0x000FFFFFFFFFFFFF}[gen.Pick(t, 9, "bc")]
		default:
			c.Bits = rapid.Uint64().Draw(t, "bits")
		}
		if rapid.Bool().Draw(t, "fneg") {
			c.Bits |= 1 << 63
		}
		c.Dirty = gen.Any(t, shapeCtx, "dirty")
	default:
		c.Kind = "text"
		c.X = genDec(t)
		c.Dirty = gen.Any(t, shapeCtx, "dirty")
	}
	return c
}

type parser struct {
	name string
	f    func(dirty *apd.Decimal, s string) (*apd.Decimal, error)
}

var parsers = []parser{
	{"NewFromString", func(_ *apd.Decimal, s string) (*apd.Decimal, error) { d, _, err := apd.NewFromString(s); return d, err }},
	{"SetString", func(d *apd.Decimal, s string) (*apd.Decimal, error) { _, _, err := d.SetString(s); return d, err }},
	{"UnmarshalText", func(d *apd.Decimal, s string) (*apd.Decimal, error) { return d, d.UnmarshalText([]byte(s)) }},
	{"Scan(string)", func(d *apd.Decimal, s string) (*apd.Decimal, error) { return d, d.Scan(s) }},
	{"Scan([]byte)", func(d *apd.Decimal, s string) (*apd.Decimal, error) { return d, d.Scan([]byte(s)) }},
}

func check(c Case, st *core.Stats) error {
	st.Class(c.Kind)
	switch c.Kind {
	case "text":
		return checkText(c, st)
	case "compose":
		return checkCompose(c, st)
	case "result":
		return checkResult(c, st)
	}
	return checkFloat(c, st)
}

// checkResult: whatever an operation returns without an error round-trips through String,
// Text('E') and MarshalText like any other Decimal.
func checkResult(c Case, st *core.Stats) error {
	if c.Op == nil {
		return nil
	}
	var o arith.Out
	core.Guard(st, func() { o = arith.Exec(*c.Op) })
	if o.Err != nil || o.D == nil {
		st.Class("result-error")
		return nil
	}
	d := o.D
	if d.Form == apd.Finite && (d.Exponent < -gen.Limit+40 || int64(d.Exponent)+int64(len(d.Coeff.String())) > gen.Limit-40) {
		st.NonTrivial("result-at-the-package-limits")
	} else {
		st.NonTrivial("result")
	}
	mt, merr := d.MarshalText()
	for name, s := range map[string]string{"String": d.String(), "Text(E)": d.Text('E'), "MarshalText": string(mt)} {
		if name == "MarshalText" && merr != nil {
			return fmt.Errorf("%v returned %s, whose MarshalText fails: %v", *c.Op, core.Show(d), merr)
		}
		back, _, err := apd.NewFromString(s)
		if err != nil {
			return fmt.Errorf("%v returned %s; its %s %q is rejected by the parser: %v", *c.Op, core.Show(d), name, trunc(s), err)
		}
		if !core.SameFields(back, d) && !(d.Form >= apd.NaNSignaling && back.Form == d.Form && back.Negative == d.Negative) && !(d.Form == apd.Infinite && back.Form == apd.Infinite && back.Negative == d.Negative) {
			return fmt.Errorf("%v returned %s; its %s %q reads back as %s", *c.Op, core.Show(d), name, trunc(s), core.Show(back))
		}
	}
	return nil
}

func classifyDec(d core.Dec, st *core.Stats) {
	switch {
	case d.Form != 0:
		st.NonTrivial("non-finite")
	case len(d.Coeff) > 38:
		st.NonTrivial("coefficient-beyond-128-bits")
	default:
		adj := int64(d.Exp) + int64(len(d.Coeff)) - 1
		if (adj >= -9 && adj <= -4) || (d.Exp >= -1 && d.Exp <= 1) || (d.IsZero() && d.Exp < 0) {
			st.NonTrivial("switch-over-region")
		}
	}
	if d.IsZero() && d.Exp <= -1998 && d.Exp >= -2002 {
		st.Class("zero-near-minus-2000")
	}
}

func checkText(c Case, st *core.Stats) error {
	x := c.X.Apd()
	classifyDec(c.X, st)
	big := len(c.X.Coeff) > 600
	type enc struct {
		name  string
		s     string
		exact bool
	}
	var encs []enc
	core.Guard(st, func() {
		encs = append(encs, enc{"String", x.String(), true})
		for _, f := range []byte{'G', 'g', 'E', 'e'} {
			encs = append(encs, enc{"Text(" + string(f) + ")", x.Text(f), true})
		}
		mt, err := x.MarshalText()
		// a second call on another value must not disturb the bytes returned by the first
		other := c.Dirty.Apd()
		mt2, _ := other.MarshalText()
		_, _, co1, _ := x.Decompose(nil)
		co1s := string(co1)
		_, _, _, _ = other.Decompose(nil)
		if string(co1) != co1s {
			encs = append(encs, enc{"Decompose-result-overwritten-by-a-later-call", "", true})
		}
		_ = mt2
		if err != nil {
			encs = append(encs, enc{"MarshalText-error:" + err.Error(), "", true})
		} else {
			encs = append(encs, enc{"MarshalText (read after a second MarshalText call)", string(mt), true})
		}
		v, err := (*x).Value()
		if s, ok := v.(string); ok && err == nil {
			encs = append(encs, enc{"Value", s, true})
		} else {
			encs = append(encs, enc{fmt.Sprintf("Value-bad(%T,%v)", v, err), "", true})
		}
		if !big {
			for _, verb := range []string{"%v", "%s", "%G", "%E", "%e", "%g"} {
				encs = append(encs, enc{"fmt " + verb, fmt.Sprintf(verb, x), true})
			}
		}
		if e := int64(c.X.Exp); e > -3000 && e < 3000 {
			st.Class("plain-f")
			encs = append(encs, enc{"Text(f)", x.Text('f'), false})
			if !big {
				encs = append(encs, enc{"fmt %f", fmt.Sprintf("%f", x), false})
			}
		}
	})
	if !core.SameFields(x, c.X.Apd()) {
		return fmt.Errorf("formatting modified the decimal %v to %s", c.X, core.Show(x))
	}
	// Append writes the same text after whatever the caller's buffer holds, whatever spare
	// capacity that buffer has (from none to several times the length of the output)
	if !big {
		n := len(c.X.Coeff)
		lead := 0
		if c.X.Exp < 0 && int(-c.X.Exp) > n {
			lead = int(-c.X.Exp) - n
		}
		var appendErr error
		core.Guard(st, func() {
			for _, f := range []byte{'G', 'E', 'f', 'g', 'e'} {
				if f == 'f' && (c.X.Exp <= -3000 || c.X.Exp >= 3000) {
					continue
				}
				want := x.Text(f)
				for _, spare := range []int{0, 1, n, 2 * n, 2*n + 1, 2*n + lead/2, n + lead + 1, 3*n + lead, len(want), len(want) + 1, 4096} {
					buf := make([]byte, 2, 2+spare)
					buf[0], buf[1] = 'a', 'b'
					got := x.Append(buf, f)
					if string(got) != "ab"+want {
						appendErr = fmt.Errorf("Append(buffer with %d spare bytes, %q) of %v gives %q, Text gives %q", spare, f, c.X, trunc(string(got)), trunc(want))
						return
					}
				}
			}
		})
		if appendErr != nil {
			return appendErr
		}
		// what Append(nil, ...) returns belongs to the caller: formatting other values afterwards
		// must not change it (no buffer shared between calls)
		core.Guard(st, func() {
			others := []*apd.Decimal{apd.NewWithBigInt(new(apd.BigInt).Exp(apd.NewBigInt(7), apd.NewBigInt(45), nil), 0), apd.New(987654321987654321, 0), apd.New(-5, -3)}
			for _, f := range []byte{'f', 'G', 'e'} {
				if f == 'f' && (c.X.Exp <= -3000 || c.X.Exp >= 3000) {
					continue
				}
				first := x.Append(nil, f)
				keep := string(first)
				for _, o := range others {
					_ = o.Append(nil, 'f')
					_ = o.Append(nil, f)
					_ = o.String()
				}
				if string(first) != keep {
					appendErr = fmt.Errorf("the slice returned by Append(nil, %q) of %v read %q, and %q after other values were formatted: a buffer shared between calls", f, c.X, trunc(keep), trunc(string(first)))
					return
				}
			}
		})
		if appendErr != nil {
			return appendErr
		}
	}
	for i, e := range encs {
		p := parsers[i%len(parsers)]
		var got *apd.Decimal
		var err error
		s := e.s
		core.Guard(st, func() { got, err = p.f(c.Dirty.Apd(), s) })
		if err != nil || got == nil {
			return fmt.Errorf("%s of %v is %q, which %s rejects: %v", e.name, c.X, trunc(s), p.name, err)
		}
		if e.exact {
			if !core.SameFields(got, x) {
				return fmt.Errorf("%s of %v is %q, which %s parses back as %s", e.name, c.X, trunc(s), p.name, core.Show(got))
			}
		} else {
			if got.Form != x.Form || got.Negative != x.Negative ||
				(x.Form == apd.Finite && ref.CmpMag(got.Coeff.MathBigInt(), int64(got.Exponent), c.X.Big(), int64(c.X.Exp)) != 0) {
				return fmt.Errorf("%s of %v is %q, which %s parses back as %s (value or sign changed)", e.name, c.X, trunc(s), p.name, core.Show(got))
			}
		}
	}
	return nil
}

func trunc(s string) string {
	if len(s) > 120 {
		return s[:60] + "..." + s[len(s)-50:]
	}
	return s
}

func checkCompose(c Case, st *core.Stats) error {
	x := c.X.Apd()
	classifyDec(c.X, st)
	buf := make([]byte, 0, c.Cap)
	var form byte
	var neg bool
	var coef []byte
	var exp int32
	var err error
	d := c.Dirty.Apd()
	core.Guard(st, func() {
		form, neg, coef, exp = x.Decompose(buf)
		err = d.Compose(form, neg, coef, exp)
	})
	if err != nil {
		return fmt.Errorf("Compose(Decompose(%v)) failed: %v", c.X, err)
	}
	if !core.SameFields(x, c.X.Apd()) {
		return fmt.Errorf("Decompose modified %v to %s", c.X, core.Show(x))
	}
	want := c.X.Apd()
	if want.Form == apd.NaNSignaling {
		want.Form = apd.NaN // documented: the decomposer format has one NaN form
	}
	ok := d.Form == want.Form && d.Negative == want.Negative
	if want.Form == apd.Finite {
		ok = ok && d.Exponent == want.Exponent && d.Coeff.MathBigInt().Cmp(want.Coeff.MathBigInt()) == 0
	}
	if !ok {
		return fmt.Errorf("Compose(Decompose(%v), cap=%d) into %v = %s", c.X, c.Cap, c.Dirty, core.Show(d))
	}
	if c.Dirty.Form != 0 && c.X.Form == 0 {
		st.Class("finite-into-non-finite-destination")
	}
	// successive Compose calls with the same arguments give the same value
	d2 := c.Dirty.Apd()
	if err := d2.Compose(form, neg, coef, exp); err != nil || !(d2.Form == d.Form && d2.Negative == d.Negative && (d.Form != apd.Finite || core.SameFields(d, d2))) {
		return fmt.Errorf("second Compose of the same parts of %v differs: %s vs %s (%v)", c.X, core.Show(d2), core.Show(d), err)
	}
	return nil
}

func checkFloat(c Case, st *core.Stats) error {
	f := math.Float64frombits(c.Bits)
	d := c.Dirty.Apd()
	var err, err2 error
	var back float64
	core.Guard(st, func() {
		_, err = d.SetFloat64(f)
		if err == nil {
			back, err2 = d.Float64()
		}
	})
	if err != nil {
		return fmt.Errorf("SetFloat64(%v [%#x]) failed: %v", f, c.Bits, err)
	}
	switch {
	case math.IsNaN(f):
		st.NonTrivial("nan")
		if d.Form != apd.NaN || !math.IsNaN(back) {
			return fmt.Errorf("SetFloat64(NaN) = %s, Float64 = %v", core.Show(d), back)
		}
		return nil
	case math.IsInf(f, 0):
		st.NonTrivial("inf")
		if d.Form != apd.Infinite || d.Negative != (f < 0) || back != f {
			return fmt.Errorf("SetFloat64(%v) = %s, Float64 = %v", f, core.Show(d), back)
		}
		return nil
	}
	if c.Bits&0x7FF0000000000000 == 0 {
		st.NonTrivial("subnormal-or-zero")
	} else {
		st.NonTrivial("normal")
	}
	if err2 != nil || math.Float64bits(back) != c.Bits {
		return fmt.Errorf("SetFloat64(%v [%#x]) = %s, Float64 gives %v [%#x] err=%v", f, c.Bits, core.Show(d), back, math.Float64bits(back), err2)
	}
	if d.Form != apd.Finite || d.Negative != math.Signbit(f) {
		return fmt.Errorf("SetFloat64(%v) = %s: wrong form or sign", f, core.Show(d))
	}
	// exactly the float's value? (it must at least round-trip, checked above) and shortest:
	// no coefficient with fewer digits denotes a decimal that parses to the same float.
	coef := d.Coeff.MathBigInt()
	if coef.Sign() == 0 {
		return nil
	}
	nd := len(coef.String())
	if nd > 17 {
		return fmt.Errorf("SetFloat64(%v) = %s: %d digits, more than the 17 that always suffice", f, core.Show(d), nd)
	}
	if nd > 1 {
		q := new(big.Int).Quo(coef, big.NewInt(10))
		for _, cand := range []*big.Int{q, new(big.Int).Add(q, big.NewInt(1))} {
			s := fmt.Sprintf("%sE%d", cand, int64(d.Exponent)+1)
			if g, err := strconv.ParseFloat(s, 64); err == nil && math.Float64bits(math.Abs(g)) == c.Bits&^(1<<63) {
				return fmt.Errorf("SetFloat64(%v) stored %s, but the shorter %s also round-trips", f, core.Show(d), s)
			}
		}
	}
	return nil
}

func TestC13(t *testing.T)       { core.Run(t, "C13", genCase, check) }
func TestC13Replay(t *testing.T) { core.Replay(t, "C13", check) }
