// C15: Cmp is the exact numeric order and CmpTotal the documented total order. Oracle:
// exact comparison by big-integer alignment, an independent total-order key, and the order
// axioms evaluated on the implementation's own answers for generated triples. The same
// Decimal objects are reused across all calls of a case and must stay unchanged.
package c15

import (
	"fmt"
	"math/big"
	"strings"
	"testing"

	"github.com/cockroachdb/apd/v3"
	"pgregory.net/rapid"
	"verif/harness/core"
	"verif/harness/gen"
	"verif/harness/pyref"
	"verif/harness/ref"
)

type Case struct {
	Ctx core.Ctx `json:"ctx"`
	X   core.Dec `json:"x"`
	Y   core.Dec `json:"y"`
	Z   core.Dec `json:"z"`
}

// related derives a value related to x: same value in another representation, one unit
// off after alignment, same digits+exponent sum, far exponent gap, sign flipped.
func related(t *rapid.T, c core.Ctx, x core.Dec, label string) core.Dec {
	if x.Form != 0 {
		switch gen.Pick(t, 3, label+"sp") {
		case 0:
			return x
		case 1:
			y := x
			y.Neg = !y.Neg
			return y
		}
		return gen.Any(t, c, label)
	}
	v := x.Big()
	switch gen.Pick(t, 8, label+"rel") {
	case 0: // pad zeros: equal value, smaller exponent (possibly crossing 128 bits / gap 129)
		j := rapid.IntRange(1, 200).Draw(t, label+"pad")
		if int64(x.Exp)-int64(j) < -gen.Limit {
			return x
		}
		return core.Dec{Coeff: new(big.Int).Mul(v, ref.Pow10(int64(j))).String(), Exp: x.Exp - int32(j), Neg: x.Neg}
	case 1: // padded and one unit off
		j := rapid.IntRange(1, 200).Draw(t, label+"pad")
		if int64(x.Exp)-int64(j) < -gen.Limit {
			return x
		}
		w := new(big.Int).Mul(v, ref.Pow10(int64(j)))
		w.Add(w, big.NewInt(int64(rapid.IntRange(-1, 1).Draw(t, label+"d"))))
		if w.Sign() < 0 {
			w.SetInt64(0)
		}
		return core.Dec{Coeff: w.String(), Exp: x.Exp - int32(j), Neg: x.Neg}
	case 2: // strip trailing zeros: equal value, larger exponent
		s := strings.TrimRight(x.Coeff, "0")
		if s == "" {
			return core.Dec{Coeff: "0", Exp: x.Exp + int32(rapid.IntRange(-5, 5).Draw(t, label+"ze")), Neg: x.Neg}
		}
		return core.Dec{Coeff: s, Exp: x.Exp + int32(len(x.Coeff)-len(s)), Neg: x.Neg}
	case 3: // same digits+exponent sum, different digits
		s := gen.Digits(t, len(x.Coeff)+rapid.IntRange(-3, 40).Draw(t, label+"dl"), label+"c")
		return core.Dec{Coeff: s, Exp: int32(int64(x.Exp) + int64(len(x.Coeff)) - int64(len(s))), Neg: x.Neg}
	case 4: // same coefficient neighbourhood, same exponent
		w := new(big.Int).Add(v, big.NewInt(int64(rapid.IntRange(-2, 2).Draw(t, label+"d"))))
		if w.Sign() < 0 {
			w.SetInt64(0)
		}
		return core.Dec{Coeff: w.String(), Exp: x.Exp, Neg: x.Neg}
	case 5: // sign flipped
		y := x
		y.Neg = !y.Neg
		return y
	case 6: // far exponent gap (capped volume: costs 10^gap arithmetic only when sums tie)
		g := rapid.IntRange(129, 4000).Draw(t, label+"gap")
		if gen.Pick(t, 40, label+"huge") == 0 {
			g = rapid.IntRange(4000, 190000).Draw(t, label+"gap2")
		}
		e := int64(x.Exp) - int64(g)
		if e < -gen.Limit {
			e = -gen.Limit
		}
		s := gen.Digits(t, 45, label+"c")
		return core.Dec{Coeff: s, Exp: int32(e), Neg: x.Neg}
	}
	return gen.Any(t, c, label)
}

func genCase(t *rapid.T) Case {
	var c Case
	c.Ctx = gen.Context(t, 40)
	c.X = gen.Any(t, c.Ctx, "x")
	if gen.Pick(t, 3, "long") == 0 && c.X.Form == 0 { // heap-backed coefficient (>= 2^128)
		c.X.Coeff = gen.DigitsN(t, rapid.IntRange(39, 90).Draw(t, "xl"), gen.Pick(t, 10, "xs"), "xlong")
	}
	c.Y = related(t, c.Ctx, c.X, "y")
	if gen.Pick(t, 2, "zsrc") == 0 {
		c.Z = related(t, c.Ctx, c.Y, "z")
	} else {
		c.Z = related(t, c.Ctx, c.X, "z")
	}
	// zeros order by their exponent alone in CmpTotal: exercise the whole int32 exponent
	// field for them (no power of ten is ever computed for a zero coefficient)
	if gen.Pick(t, 25, "zeroext") == 0 {
		ext := []int32{-2147483648, 2147483647, -2000000000, 2000000000, -1073741824, 1073741824, 0, -100000, 100000}
		neg := rapid.Bool().Draw(t, "zneg")
		c.X = core.Dec{Coeff: "0", Neg: neg, Exp: ext[gen.Pick(t, len(ext), "ze1")]}
		c.Y = core.Dec{Coeff: "0", Neg: neg, Exp: ext[gen.Pick(t, len(ext), "ze2")]}
		c.Z = core.Dec{Coeff: "0", Neg: rapid.Bool().Draw(t, "zneg3"), Exp: ext[gen.Pick(t, len(ext), "ze3")]}
	}
	for _, d := range []*core.Dec{&c.X, &c.Y, &c.Z} {
		if d.Form >= 2 { // canonical NaNs: text and decomposer formats carry no payload
			d.Coeff, d.Exp = "0", 0
		}
	}
	return c
}

func isNaN(d core.Dec) bool { return d.Form >= 2 }

// exactCmp is the numeric comparison of two non-NaN values.
func exactCmp(a, b core.Dec) int {
	sg := func(d core.Dec) int {
		if d.Form == 0 && d.Big().Sign() == 0 {
			return 0
		}
		if d.Neg {
			return -1
		}
		return 1
	}
	sa, sb := sg(a), sg(b)
	if sa != sb {
		if sa < sb {
			return -1
		}
		return 1
	}
	if sa == 0 {
		return 0
	}
	var m int
	switch {
	case a.Form == 1 && b.Form == 1:
		m = 0
	case a.Form == 1:
		m = 1
	case b.Form == 1:
		m = -1
	default:
		m = ref.CmpMag(a.Big(), int64(a.Exp), b.Big(), int64(b.Exp))
	}
	return m * sa
}

// totalCmp is the documented total order, written independently: class rank first
// (-NaN < -sNaN < -Inf < finite < +Inf < +sNaN < +NaN), then value, then exponent
// (reversed for negatives).
func totalCmp(a, b core.Dec) int {
	rank := func(d core.Dec) int {
		r := 0
		switch d.Form {
		case 0:
			r = 1
		case 1:
			r = 2
		case 2:
			r = 3
		case 3:
			r = 4
		}
		if d.Neg {
			return -r
		}
		return r
	}
	ra, rb := rank(a), rank(b)
	if ra != rb {
		if ra < rb {
			return -1
		}
		return 1
	}
	if a.Form != 0 {
		return 0
	}
	if c := exactCmp(a, b); c != 0 {
		return c
	}
	s := 1
	if a.Neg {
		s = -1
	}
	switch {
	case a.Exp < b.Exp:
		return -s
	case a.Exp > b.Exp:
		return s
	}
	return 0
}

func snapshot(d *apd.Decimal) string {
	return fmt.Sprintf("%d/%v/%d/%s", d.Form, d.Negative, d.Exponent, d.Coeff.VerifReprString())
}

func sgn(v int) int {
	switch {
	case v < 0:
		return -1
	case v > 0:
		return 1
	}
	return 0
}

func check(c Case, st *core.Stats) error {
	ds := []core.Dec{c.X, c.Y, c.Z}
	as := []*apd.Decimal{c.X.Apd(), c.Y.Apd(), c.Z.Apd()}
	before := []string{snapshot(as[0]), snapshot(as[1]), snapshot(as[2])}
	names := []string{"x", "y", "z"}
	var failed error
	var cmpM, totM [3][3]int
	first := 0
	core.Guard(st, func() {
		for i := 0; i < 3 && failed == nil; i++ {
			for j := 0; j < 3 && failed == nil; j++ {
				a, b := ds[i], ds[j]
				tot := as[i].CmpTotal(as[j])
				totM[i][j] = tot
				if want := totalCmp(a, b); sgn(tot) != want {
					failed = fmt.Errorf("CmpTotal(%s=%v, %s=%v) = %d, want %d", names[i], a, names[j], b, tot, want)
					return
				}
				if !isNaN(a) && !isNaN(b) {
					got := as[i].Cmp(as[j])
					cmpM[i][j] = got
					if i == 0 && j == 1 {
						first = got
					}
					if want := exactCmp(a, b); got != want {
						failed = fmt.Errorf("Cmp(%s=%v, %s=%v) = %d, want %d", names[i], a, names[j], b, got, want)
						return
					}
				}
			}
		}
		if failed != nil {
			return
		}
		// Context.Cmp on (x, y)
		var d apd.Decimal
		ctx := c.Ctx.Apd()
		res, err := ctx.Cmp(&d, as[0], as[1])
		switch {
		case c.X.Form == 2 || c.Y.Form == 2:
			if d.Form != apd.NaN || res != apd.InvalidOperation || err != nil {
				failed = fmt.Errorf("Context.Cmp(%v, %v) = %s flags=%s err=%v; a signaling NaN must give NaN with InvalidOperation", c.X, c.Y, core.Show(&d), core.FlagStr(res), err)
			}
		case isNaN(c.X) || isNaN(c.Y):
			if d.Form != apd.NaN || res != 0 || err != nil {
				failed = fmt.Errorf("Context.Cmp(%v, %v) = %s flags=%s err=%v; a quiet NaN must propagate silently", c.X, c.Y, core.Show(&d), core.FlagStr(res), err)
			}
		default:
			want := exactCmp(c.X, c.Y)
			if err != nil || res != 0 || d.Form != apd.Finite || d.Exponent != 0 || d.Coeff.MathBigInt().Cmp(big.NewInt(int64(want*want))) != 0 || d.Negative != (want < 0) {
				failed = fmt.Errorf("Context.Cmp(%v, %v) = %s flags=%s err=%v; want %d", c.X, c.Y, core.Show(&d), core.FlagStr(res), err, want)
			}
		}
		if failed != nil {
			return
		}
		// the first comparison again, on the same (possibly corrupted) objects
		if !isNaN(c.X) && !isNaN(c.Y) {
			if again := as[0].Cmp(as[1]); again != first {
				failed = fmt.Errorf("Cmp(x=%v, y=%v) returned %d first and %d after other comparisons on the same objects", c.X, c.Y, first, again)
			}
		}
	})
	if failed != nil {
		return failed
	}
	// axioms on apd's own answers
	for i := 0; i < 3; i++ {
		for j := 0; j < 3; j++ {
			if sgn(totM[i][j]) != -sgn(totM[j][i]) {
				return fmt.Errorf("CmpTotal not antisymmetric on %v, %v: %d and %d", ds[i], ds[j], totM[i][j], totM[j][i])
			}
			for k := 0; k < 3; k++ {
				if totM[i][j] <= 0 && totM[j][k] <= 0 && totM[i][k] > 0 {
					return fmt.Errorf("CmpTotal not transitive on %v <= %v <= %v", ds[i], ds[j], ds[k])
				}
			}
		}
	}
	for i := range as {
		if s := snapshot(as[i]); s != before[i] {
			return fmt.Errorf("comparison modified operand %s=%v: %s -> %s", names[i], ds[i], before[i], s)
		}
	}
	classify(c, st)
	return nil
}

func classify(c Case, st *core.Stats) {
	x, y := c.X, c.Y
	if x.Form == 0 && y.Form == 0 {
		if x.Exp != y.Exp && x.Neg == y.Neg && !x.IsZero() && !y.IsZero() {
			st.NonTrivial("different-exponents")
			sx, sy := int64(x.Exp)+int64(len(x.Coeff)), int64(y.Exp)+int64(len(y.Coeff))
			if sx == sy {
				st.Class("equal-digit+exponent-sums")
				gap := int64(x.Exp) - int64(y.Exp)
				if gap < 0 {
					gap = -gap
				}
				if gap > 128 {
					st.Class("rescale-gap-over-128")
				}
				if len(x.Coeff) >= 39 || len(y.Coeff) >= 39 {
					st.Class("rescale-heap-coefficient")
				}
			}
			if exactCmp(x, y) == 0 {
				st.Class("equal-value-different-representation")
			}
		}
		if x.IsZero() || y.IsZero() {
			st.Class("zero-operand")
		}
	} else {
		st.Class("special-operand")
		if isNaN(x) || isNaN(y) {
			st.Class("nan-operand")
		}
	}
}

// enumerated: values written out in full against the same power of ten written with an
// exponent, at digit counts where the digit-count shortcut of Cmp (NumDigits beyond the
// 128-bit table, a floating-point estimate) is most fragile: convergents of log10(2).
func enumerated() []Case {
	var out []Case
	ctx := core.Ctx{P: 9, Emax: gen.Limit, Emin: -gen.Limit}
	for _, k := range []int{146, 643, 4004, 8651, 12655, 21306, 33961} {
		full := "1" + strings.Repeat("0", k)
		plus := "1" + strings.Repeat("0", k-1) + "5"
		for _, neg := range []bool{false, true} {
			out = append(out, Case{Ctx: ctx, X: core.Dec{Coeff: full, Neg: neg}, Y: core.Dec{Coeff: "1", Exp: int32(k), Neg: neg}, Z: core.Dec{Coeff: plus, Neg: neg}})
			out = append(out, Case{Ctx: ctx, X: core.Dec{Coeff: "1", Exp: int32(k), Neg: neg}, Y: core.Dec{Coeff: plus, Neg: neg}, Z: core.Dec{Coeff: "9", Exp: int32(k - 1), Neg: neg}})
		}
	}
	// equal adjusted exponents with an exponent gap above 100000 (needs a coefficient of more
	// than 100000 digits; both operands are within the package limits)
	huge := "1" + strings.Repeat("0", 100001)
	hugeP := "1" + strings.Repeat("0", 100000) + "7"
	for _, neg := range []bool{false, true} {
		out = append(out, Case{Ctx: ctx, X: core.Dec{Coeff: huge, Exp: -gen.Limit, Neg: neg}, Y: core.Dec{Coeff: "1", Exp: 1, Neg: neg}, Z: core.Dec{Coeff: hugeP, Exp: -gen.Limit, Neg: neg}})
		out = append(out, Case{Ctx: ctx, X: core.Dec{Coeff: "2", Exp: 1, Neg: neg}, Y: core.Dec{Coeff: hugeP, Exp: -gen.Limit, Neg: neg}, Z: core.Dec{Coeff: "1", Exp: 1, Neg: neg}})
	}
	return out
}

func TestC15(t *testing.T)       { core.RunPre(t, "C15", enumerated(), genCase, checkDiff) }
func TestC15Replay(t *testing.T) { core.Replay(t, "C15", checkDiff) }

// checkDiff: after the model, CmpTotal(x, y) and Cmp(x, y) are compared with compare_total and
// compare of Python's decimal module (libmpdec), an independent implementation of the
// specification's total order (payloads are not modelled on either side).
func checkDiff(c Case, st *core.Stats) error {
	if err := check(c, st); err != nil {
		return err
	}
	ctx := core.Ctx{P: 9, Emax: 99, Emin: -99, Rounding: "half_even"}
	a, err := pyref.Ask("cmptotal", ctx, c.X, c.Y, 0)
	if err != nil {
		core.InfraExit(err.Error())
	}
	v, err := pyref.Parse(a.S)
	if err != nil || v.Form != 0 {
		core.InfraExit(fmt.Sprintf("pyref: unexpected compare_total answer %q", a.S))
	}
	want := v.Coeff.Sign()
	if v.Neg {
		want = -want
	}
	st.Class("python-differential")
	if got := sgn(c.X.Apd().CmpTotal(c.Y.Apd())); got != want {
		return fmt.Errorf("CmpTotal(%v, %v) = %d, Python's compare_total gives %d", c.X, c.Y, got, want)
	}
	if !isNaN(c.X) && !isNaN(c.Y) {
		a, err := pyref.Ask("cmp", ctx, c.X, c.Y, 0)
		if err != nil {
			core.InfraExit(err.Error())
		}
		v, err := pyref.Parse(a.S)
		if err != nil || v.Form != 0 {
			core.InfraExit(fmt.Sprintf("pyref: unexpected compare answer %q", a.S))
		}
		want := v.Coeff.Sign()
		if v.Neg {
			want = -want
		}
		if got := c.X.Apd().Cmp(c.Y.Apd()); got != want {
			return fmt.Errorf("Cmp(%v, %v) = %d, Python's compare gives %d", c.X, c.Y, got, want)
		}
	}
	return nil
}
