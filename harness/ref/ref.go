// Package ref holds the reference models. Everything here is written against math/big
// only; it shares no code, constants or algorithms with the package under test.
package ref

import (
	"fmt"
	"math/big"

	"github.com/cockroachdb/apd/v3"
	"verif/harness/core"
)

// Exact is the exact value (-1)^Neg * Num/Den * 10^Exp with Num >= 0, Den > 0.
type Exact struct {
	Neg bool
	Num *big.Int
	Den *big.Int
	Exp int64
}

func (e Exact) IsZero() bool { return e.Num.Sign() == 0 }

func (e Exact) String() string {
	if e.Num == nil {
		return "<none>"
	}
	s := ""
	if e.Neg {
		s = "-"
	}
	if e.Den.Cmp(one) == 0 {
		return fmt.Sprintf("%s%sE%d", s, e.Num, e.Exp)
	}
	return fmt.Sprintf("%s(%s/%s)E%d", s, e.Num, e.Den, e.Exp)
}

// Result is a rounded reference result.
type Result struct {
	Form    apd.Form
	Neg     bool
	Coeff   *big.Int
	Exp     int64
	Inexact bool // returned value differs from the exact one
	Sub     bool // exact non-zero value below 10^Emin
	Over    bool // rounded magnitude exceeds the range (result is an infinity)
	Dropped bool // at least one digit (zero or not) was removed
	Half    int  // comparison of the discarded part with half a unit (valid when Inexact and not Over)
	Carry   bool // rounding up carried into a new digit (99..9 -> 100..0)
}

// Flags returns the conditions that are a function of the exact result only.
func (r Result) Flags() apd.Condition {
	var f apd.Condition
	if r.Inexact {
		f |= apd.Inexact
	}
	if r.Sub {
		f |= apd.Subnormal
		if r.Inexact {
			f |= apd.Underflow
		}
	}
	if r.Over {
		f |= apd.Overflow | apd.Inexact
	}
	return f
}

func (r Result) String() string {
	s := ""
	if r.Neg {
		s = "-"
	}
	if r.Form == apd.Infinite {
		return s + "Infinity"
	}
	return fmt.Sprintf("%s%sE%d [inexact=%v sub=%v]", s, r.Coeff, r.Exp, r.Inexact, r.Sub)
}

var (
	one = big.NewInt(1)
	ten = big.NewInt(10)
)

var pow10cache = func() []*big.Int {
	c := make([]*big.Int, 5000)
	c[0] = big.NewInt(1)
	for i := 1; i < len(c); i++ {
		c[i] = new(big.Int).Mul(c[i-1], ten)
	}
	return c
}()

// Pow10 returns 10^n (n >= 0). The result must not be modified.
func Pow10(n int64) *big.Int {
	if n < 0 {
		panic("ref.Pow10: negative exponent")
	}
	if n < int64(len(pow10cache)) {
		return pow10cache[n]
	}
	return new(big.Int).Exp(ten, big.NewInt(n), nil)
}

// NDigits is the number of decimal digits of |b| (1 for zero).
func NDigits(b *big.Int) int64 {
	if b.Sign() == 0 {
		return 1
	}
	if b.IsUint64() {
		v := b.Uint64()
		n := int64(1)
		for v >= 10 {
			v /= 10
			n++
		}
		return n
	}
	n := int64(len(b.Text(10)))
	if b.Sign() < 0 {
		n--
	}
	return n
}

// AdjExp is floor(log10(Num/Den)) + Exp for a non-zero exact value.
func AdjExp(e Exact) int64 {
	k := NDigits(e.Num) - NDigits(e.Den)
	var l, r *big.Int
	if k >= 0 {
		l, r = e.Num, new(big.Int).Mul(e.Den, Pow10(k))
	} else {
		l, r = new(big.Int).Mul(e.Num, Pow10(-k)), e.Den
	}
	if l.Cmp(r) < 0 {
		k--
	}
	return k + e.Exp
}

// Mode normalises a Rounder string: anything that is not one of the eight names
// (including the empty default) means half-up, as Context documents.
func Mode(s string) string {
	switch s {
	case "down", "half_up", "half_even", "ceiling", "floor", "half_down", "up", "05up":
		return s
	}
	return "half_up"
}

// AddOne restates the eight General Decimal Arithmetic rounding rules: q is the truncated
// magnitude, neg the sign of the exact value, half the comparison of the discarded part
// with one half unit (-1, 0, +1); the discarded part is non-zero.
func AddOne(mode string, q *big.Int, neg bool, half int) bool {
	switch Mode(mode) {
	case "down":
		return false
	case "up":
		return true
	case "ceiling":
		return !neg
	case "floor":
		return neg
	case "half_even":
		return half > 0 || (half == 0 && q.Bit(0) == 1)
	case "half_down":
		return half > 0
	case "05up":
		m := new(big.Int).Mod(q, ten).Int64()
		return m == 0 || m == 5
	default:
		return half >= 0
	}
}

// DivRound returns value/10^q rounded to an integer in mode, for the non-negative
// magnitude num/den*10^exp. It reports whether anything non-zero was discarded.
func DivRound(num, den *big.Int, exp, q int64, mode string, neg bool) (n *big.Int, inexact bool) {
	n, inexact, _ = DivRoundH(num, den, exp, q, mode, neg)
	return
}

// DivRoundH is DivRound that also reports the half comparison of the discarded part.
func DivRoundH(num, den *big.Int, exp, q int64, mode string, neg bool) (n *big.Int, inexact bool, half int) {
	nn := new(big.Int).Set(num)
	dd := new(big.Int).Set(den)
	if exp >= q {
		nn.Mul(nn, Pow10(exp-q))
	} else {
		dd.Mul(dd, Pow10(q-exp))
	}
	quo, rem := new(big.Int).QuoRem(nn, dd, new(big.Int))
	if rem.Sign() != 0 {
		inexact = true
		half = new(big.Int).Lsh(rem, 1).Cmp(dd)
		if AddOne(mode, quo, neg, half) {
			quo.Add(quo, one)
		}
	}
	return quo, inexact, half
}

// Round rounds a non-zero exact value once to the context (Precision >= 1).
func Round(e Exact, c core.Ctx) Result {
	if e.Num.Sign() == 0 {
		panic("ref.Round: zero")
	}
	p := int64(c.P)
	adj := AdjExp(e)
	res := Result{Neg: e.Neg, Form: apd.Finite}
	res.Sub = adj < int64(c.Emin)
	var q int64
	if res.Sub {
		q = int64(c.Emin) - p + 1
	} else {
		q = adj - p + 1
	}
	if e.Den.Cmp(one) == 0 && e.Exp >= q {
		// representable without dropping anything; keep the exact coefficient
		res.Coeff = new(big.Int).Set(e.Num)
		res.Exp = e.Exp
	} else {
		res.Coeff, res.Inexact, res.Half = DivRoundH(e.Num, e.Den, e.Exp, q, c.Rounding, e.Neg)
		res.Exp = q
		res.Dropped = true
		res.Carry = !res.Sub && NDigits(res.Coeff) > p
	}
	if res.Coeff.Sign() != 0 && res.Exp+NDigits(res.Coeff)-1 > int64(c.Emax) {
		res.Form = apd.Infinite
		res.Over = true
		res.Inexact = true
	}
	return res
}

// FromDec converts a finite decimal case value to its exact value.
func FromDec(d core.Dec) Exact {
	return Exact{Neg: d.Neg, Num: d.Big(), Den: big.NewInt(1), Exp: int64(d.Exp)}
}

// FromApd converts a finite apd decimal to its exact value.
func FromApd(d *apd.Decimal) Exact {
	return Exact{Neg: d.Negative, Num: d.Coeff.MathBigInt(), Den: big.NewInt(1), Exp: int64(d.Exponent)}
}

// CmpMag compares the magnitudes a*10^ea and b*10^eb.
func CmpMag(a *big.Int, ea int64, b *big.Int, eb int64) int {
	if a.Sign() == 0 || b.Sign() == 0 {
		return a.CmpAbs(b)
	}
	// quick decision by adjusted exponents
	da, db := NDigits(a)+ea, NDigits(b)+eb
	if da != db {
		if da < db {
			return -1
		}
		return 1
	}
	x, y := new(big.Int).Abs(a), new(big.Int).Abs(b)
	if ea > eb {
		x.Mul(x, Pow10(ea-eb))
	} else if eb > ea {
		y.Mul(y, Pow10(eb-ea))
	}
	return x.Cmp(y)
}

// SameValue reports whether the apd decimal d equals the reference result numerically,
// sign (also of zero and infinity) included. Exponents are not compared.
func SameValue(d *apd.Decimal, r Result) bool {
	if d.Form != r.Form || d.Negative != r.Neg {
		return false
	}
	if d.Form != apd.Finite {
		return true
	}
	return CmpMag(d.Coeff.MathBigInt(), int64(d.Exponent), r.Coeff, r.Exp) == 0
}

// Add returns the exact sum (or difference) of two finite values. For an exact zero
// the sign follows the GDA rule: like signs keep the sign; otherwise +0, or -0 under floor.
func Add(x, y core.Dec, subtract bool, mode string) Exact {
	a, b := x.Big(), y.Big()
	xn, yn := x.Neg, y.Neg != subtract
	ex, ey := int64(x.Exp), int64(y.Exp)
	e := ex
	if ey < e {
		e = ey
	}
	a.Mul(a, Pow10(ex-e))
	b.Mul(b, Pow10(ey-e))
	if xn {
		a.Neg(a)
	}
	if yn {
		b.Neg(b)
	}
	s := new(big.Int).Add(a, b)
	out := Exact{Num: new(big.Int).Abs(s), Den: big.NewInt(1), Exp: e}
	switch s.Sign() {
	case -1:
		out.Neg = true
	case 0:
		if xn == yn {
			out.Neg = xn
		} else {
			out.Neg = Mode(mode) == "floor"
		}
	}
	return out
}

// Mul returns the exact product of two finite values.
func Mul(x, y core.Dec) Exact {
	return Exact{Neg: x.Neg != y.Neg, Num: new(big.Int).Mul(x.Big(), y.Big()), Den: big.NewInt(1), Exp: int64(x.Exp) + int64(y.Exp)}
}

// Quo returns the exact quotient of two finite values (y non-zero).
func Quo(x, y core.Dec) Exact {
	return Exact{Neg: x.Neg != y.Neg, Num: x.Big(), Den: y.Big(), Exp: int64(x.Exp) - int64(y.Exp)}
}
