package ref

import (
	"math/big"
	"strings"

	"verif/harness/core"
)

// ToSci is an independent implementation of the General Decimal Arithmetic
// to-scientific-string conversion, with apd's single documented exception: a zero with an
// exponent in [-2000,-1] is written in plain notation.
func ToSci(d core.Dec) string {
	var b strings.Builder
	if d.Neg {
		b.WriteByte('-')
	}
	switch d.Form {
	case 1:
		b.WriteString("Infinity")
		return b.String()
	case 2:
		b.WriteString("sNaN")
		return b.String()
	case 3:
		b.WriteString("NaN")
		return b.String()
	}
	s := d.Coeff
	e := int64(d.Exp)
	n := int64(len(s))
	adj := e + n - 1
	plain := e <= 0 && adj >= -6
	if s == "0" && e < 0 && e >= -2000 {
		plain = true
	}
	if plain {
		switch {
		case e == 0:
			b.WriteString(s)
		case n > -e:
			b.WriteString(s[:n+e])
			b.WriteByte('.')
			b.WriteString(s[n+e:])
		default:
			b.WriteString("0.")
			b.WriteString(strings.Repeat("0", int(-e-n)))
			b.WriteString(s)
		}
		return b.String()
	}
	b.WriteString(s[:1])
	if n > 1 {
		b.WriteByte('.')
		b.WriteString(s[1:])
	}
	b.WriteByte('E')
	if adj < 0 {
		b.WriteByte('-')
		adj = -adj
	} else {
		b.WriteByte('+')
	}
	b.WriteString(big.NewInt(adj).String())
	return b.String()
}

// Parsed is what the numeric-string grammar assigns to a string.
type Parsed struct {
	OK      bool
	Form    int8
	Neg     bool
	Coeff   string   // digits without leading zeros ("0" for zero and for NaN/Inf)
	Written *big.Int // written exponent (0 if absent)
	Exp     *big.Int // stored exponent = written - fraction digits
	Adj     *big.Int // adjusted exponent of the value
}

func isDigit(c byte) bool { return c >= '0' && c <= '9' }

func lowerASCII(c byte) byte {
	if c >= 'A' && c <= 'Z' {
		return c + 'a' - 'A'
	}
	return c
}

func eqFold(s, t string) bool {
	if len(s) != len(t) {
		return false
	}
	for i := 0; i < len(s); i++ {
		if lowerASCII(s[i]) != t[i] {
			return false
		}
	}
	return true
}

// Recognise is a hand-written recogniser of the specification's numeric-string grammar:
//   sign? ( digits ['.' digits?] | '.' digits ) [ (e|E) sign? digits ]
//   sign? ( "inf" | "infinity" )            case-insensitive
//   sign? ( "nan" | "snan" ) digits?        case-insensitive
// It works on bytes; any non-ASCII byte makes the string ungrammatical.
func Recognise(s string) Parsed {
	var p Parsed
	i := 0
	if i < len(s) && (s[i] == '+' || s[i] == '-') {
		p.Neg = s[i] == '-'
		i++
	}
	rest := s[i:]
	if eqFold(rest, "inf") || eqFold(rest, "infinity") {
		p.OK, p.Form, p.Coeff = true, 1, "0"
		p.Written, p.Exp, p.Adj = new(big.Int), new(big.Int), new(big.Int)
		return p
	}
	for _, pre := range []struct {
		name string
		form int8
	}{{"snan", 2}, {"nan", 3}} {
		if len(rest) >= len(pre.name) && eqFold(rest[:len(pre.name)], pre.name) {
			pay := rest[len(pre.name):]
			for k := 0; k < len(pay); k++ {
				if !isDigit(pay[k]) {
					return Parsed{}
				}
			}
			p.OK, p.Form, p.Coeff = true, pre.form, "0"
			p.Written, p.Exp, p.Adj = new(big.Int), new(big.Int), new(big.Int)
			return p
		}
	}
	// decimal part
	j := i
	for j < len(s) && isDigit(s[j]) {
		j++
	}
	intPart := s[i:j]
	fracPart := ""
	if j < len(s) && s[j] == '.' {
		k := j + 1
		for k < len(s) && isDigit(s[k]) {
			k++
		}
		fracPart = s[j+1 : k]
		j = k
	}
	if intPart == "" && fracPart == "" {
		return Parsed{}
	}
	written := new(big.Int)
	if j < len(s) {
		if s[j] != 'e' && s[j] != 'E' {
			return Parsed{}
		}
		k := j + 1
		eneg := false
		if k < len(s) && (s[k] == '+' || s[k] == '-') {
			eneg = s[k] == '-'
			k++
		}
		if k >= len(s) {
			return Parsed{}
		}
		for m := k; m < len(s); m++ {
			if !isDigit(s[m]) {
				return Parsed{}
			}
		}
		written.SetString(s[k:], 10)
		if eneg {
			written.Neg(written)
		}
	}
	digits := strings.TrimLeft(intPart+fracPart, "0")
	if digits == "" {
		digits = "0"
	}
	p.OK, p.Form, p.Coeff = true, 0, digits
	p.Written = written
	p.Exp = new(big.Int).Sub(written, big.NewInt(int64(len(fracPart))))
	p.Adj = new(big.Int).Add(p.Exp, big.NewInt(int64(len(digits)-1)))
	return p
}
