package ref

import (
	"math/big"

	"github.com/cockroachdb/apd/v3"
	"verif/harness/core"
)

// ZeroResult builds a zero reference result with the given sign.
func ZeroResult(neg bool) Result {
	return Result{Form: apd.Finite, Neg: neg, Coeff: new(big.Int)}
}

// RoundOrZero rounds an exact value to the context; exact zeros keep e.Neg.
func RoundOrZero(e Exact, c core.Ctx) Result {
	if e.IsZero() {
		return ZeroResult(e.Neg)
	}
	return Round(e, c)
}

// QuantizeRes is the reference outcome of Quantize / RoundToIntegral.
type QuantizeRes struct {
	Invalid bool     // NaN + InvalidOperation
	N       *big.Int // coefficient at exponent E
	E       int64
	Neg     bool
	Inexact bool // non-zero digits lost
	Rounded bool // digits (zero or not) lost: E > x.Exp
}

// Quantize: coefficient = |x|/10^e rounded to an integer in the mode, exponent exactly e.
// Invalid iff e is outside [Etiny, Emax], the coefficient needs more than P digits, or the
// adjusted exponent exceeds Emax. limitDigits=false gives RoundToIntegral semantics.
func Quantize(x core.Dec, e int64, c core.Ctx, limitDigits bool) QuantizeRes {
	r := QuantizeRes{E: e, Neg: x.Neg}
	if limitDigits {
		// decide the range condition first: the target may be anywhere in the int32 range and
		// the rescaling below would need a power of ten of that size
		if etiny := int64(c.Emin) - int64(c.P) + 1; e < etiny || e > int64(c.Emax) {
			r.Invalid = true
			r.N = new(big.Int)
			return r
		}
	}
	n, inexact := DivRound(x.Big(), one, int64(x.Exp), e, c.Rounding, x.Neg)
	r.N, r.Inexact = n, inexact
	r.Rounded = e > int64(x.Exp)
	if limitDigits {
		etiny := int64(c.Emin) - int64(c.P) + 1
		if e < etiny || e > int64(c.Emax) {
			r.Invalid = true
		}
		if n.Sign() != 0 && (NDigits(n) > int64(c.P) || e+NDigits(n)-1 > int64(c.Emax)) {
			r.Invalid = true
		}
	}
	return r
}

// DivInt is the reference for QuoInteger and Rem: q = trunc(x/y), r = x - q*y at the
// common exponent e = min(exponents). Signs are handled by the callers.
func DivInt(x, y core.Dec) (q, r *big.Int, e int64) {
	ex, ey := int64(x.Exp), int64(y.Exp)
	e = ex
	if ey < e {
		e = ey
	}
	a := new(big.Int).Mul(x.Big(), Pow10(ex-e))
	b := new(big.Int).Mul(y.Big(), Pow10(ey-e))
	q, r = new(big.Int).QuoRem(a, b, new(big.Int))
	return q, r, e
}

// SqrtExact returns an exact stand-in for sqrt(x) (x finite, positive) that rounds, at any
// precision up to p digits and in any mode, exactly like the true root: the integer root
// of the coefficient scaled to at least 2p+8 digits, plus one half when the root is not
// exact (the true fractional part lies strictly between 0 and 1 and, with at least two
// guard digits, can neither be nor cross a rounding boundary).
func SqrtExact(x core.Dec, p int64) (e Exact, exact bool) {
	c := x.Big()
	exp := int64(x.Exp)
	if exp%2 != 0 {
		c.Mul(c, ten)
		exp--
	}
	k := int64(0)
	if nd := NDigits(c); nd < 2*p+8 {
		k = (2*p + 8 - nd + 1) / 2
	}
	c.Mul(c, Pow10(2*k))
	s := new(big.Int).Sqrt(c)
	exact = new(big.Int).Mul(s, s).Cmp(c) == 0
	rexp := (exp - 2*k) / 2
	if exact {
		return Exact{Num: s, Den: big.NewInt(1), Exp: rexp}, true
	}
	num := new(big.Int).Lsh(s, 1)
	num.Add(num, one)
	return Exact{Num: num, Den: big.NewInt(2), Exp: rexp}, false
}

// Icbrt returns floor(cbrt(n)) for n >= 0.
func Icbrt(n *big.Int) *big.Int {
	if n.Sign() == 0 {
		return new(big.Int)
	}
	// Newton from above: x0 = 2^ceil(bitlen/3)
	x := new(big.Int).Lsh(one, uint((n.BitLen()+2)/3))
	three := big.NewInt(3)
	for {
		// y = (2x + n/x^2) / 3
		x2 := new(big.Int).Mul(x, x)
		y := new(big.Int).Quo(n, x2)
		y.Add(y, new(big.Int).Lsh(x, 1))
		y.Quo(y, three)
		if y.Cmp(x) >= 0 {
			break
		}
		x = y
	}
	// x is floor(cbrt(n)); make sure
	for new(big.Int).Mul(new(big.Int).Mul(x, x), x).Cmp(n) > 0 {
		x.Sub(x, one)
	}
	for {
		x1 := new(big.Int).Add(x, one)
		if new(big.Int).Mul(new(big.Int).Mul(x1, x1), x1).Cmp(n) > 0 {
			break
		}
		x = x1
	}
	return x
}

// CbrtExact is SqrtExact for cube roots (sign handled by the caller).
func CbrtExact(x core.Dec, p int64) (e Exact, exact bool) {
	c := x.Big()
	exp := int64(x.Exp)
	for ((exp%3)+3)%3 != 0 {
		c.Mul(c, ten)
		exp--
	}
	k := int64(0)
	if nd := NDigits(c); nd < 3*p+12 {
		k = (3*p + 12 - nd + 2) / 3
	}
	c.Mul(c, Pow10(3*k))
	s := Icbrt(c)
	exact = new(big.Int).Mul(new(big.Int).Mul(s, s), s).Cmp(c) == 0
	rexp := (exp - 3*k) / 3
	if exact {
		return Exact{Neg: x.Neg, Num: s, Den: big.NewInt(1), Exp: rexp}, true
	}
	num := new(big.Int).Lsh(s, 1)
	num.Add(num, one)
	return Exact{Neg: x.Neg, Num: num, Den: big.NewInt(2), Exp: rexp}, false
}

// Neighbours returns the representable P-digit neighbours (value-1ulp, value+1ulp) of a
// finite non-zero reference result, as coefficient/exponent pairs at the result's exponent.
func Neighbours(r Result) (lo, hi Result) {
	lo, hi = r, r
	lo.Coeff = new(big.Int).Sub(r.Coeff, one)
	hi.Coeff = new(big.Int).Add(r.Coeff, one)
	return
}
