package ref

import (
	"math/big"
)

// Rigorous interval enclosures of ln, exp, log10 and pow in fixed point over math/big.
// A real t is enclosed by [Lo,Hi]/10^W; every operation rounds outward (floor for Lo,
// ceil for Hi). Nothing here shares code, constants or algorithms with the package under
// test (which uses Hull-Abrham Taylor-Horner, Halley iteration and a stored ln 10 string):
// logarithms come from the odd series of atanh, ln 2 = 2 atanh(1/3),
// ln 10 = 3 ln 2 + 2 atanh(1/9); exp from the Taylor series after reduction by n*ln 10 and
// nine halvings.

type Iv struct{ Lo, Hi *big.Int }

type FP struct {
	W          int64
	S          *big.Int // 10^W
	ln2, ln10  *Iv
}

func NewFP(w int64) *FP { return &FP{W: w, S: Pow10(w)} }

func bi(n int64) *big.Int { return big.NewInt(n) }

func floorDiv(a, b *big.Int) *big.Int { // b > 0
	q, _ := new(big.Int).DivMod(a, b, new(big.Int)) // Euclidean division with b > 0 is floor
	return q
}

func ceilDiv(a, b *big.Int) *big.Int { // b > 0
	q, m := new(big.Int).DivMod(a, b, new(big.Int))
	if m.Sign() != 0 {
		q.Add(q, one)
	}
	return q
}

// FromDec encloses sign*coef*10^exp.
func (f *FP) FromDec(neg bool, coef *big.Int, exp int64) Iv {
	c := new(big.Int).Set(coef)
	if neg {
		c.Neg(c)
	}
	sh := exp + f.W
	if sh >= 0 {
		v := c.Mul(c, Pow10(sh))
		return Iv{v, new(big.Int).Set(v)}
	}
	d := Pow10(-sh)
	return Iv{floorDiv(c, d), ceilDiv(c, d)}
}

func (f *FP) Add(a, b Iv) Iv { return Iv{new(big.Int).Add(a.Lo, b.Lo), new(big.Int).Add(a.Hi, b.Hi)} }
func (f *FP) Sub(a, b Iv) Iv { return Iv{new(big.Int).Sub(a.Lo, b.Hi), new(big.Int).Sub(a.Hi, b.Lo)} }

func (f *FP) Mul(a, b Iv) Iv {
	ps := []*big.Int{new(big.Int).Mul(a.Lo, b.Lo), new(big.Int).Mul(a.Lo, b.Hi), new(big.Int).Mul(a.Hi, b.Lo), new(big.Int).Mul(a.Hi, b.Hi)}
	mn, mx := ps[0], ps[0]
	for _, p := range ps[1:] {
		if p.Cmp(mn) < 0 {
			mn = p
		}
		if p.Cmp(mx) > 0 {
			mx = p
		}
	}
	return Iv{floorDiv(mn, f.S), ceilDiv(mx, f.S)}
}

func (f *FP) MulInt(a Iv, n int64) Iv {
	if n >= 0 {
		return Iv{new(big.Int).Mul(a.Lo, bi(n)), new(big.Int).Mul(a.Hi, bi(n))}
	}
	return Iv{new(big.Int).Mul(a.Hi, bi(n)), new(big.Int).Mul(a.Lo, bi(n))}
}

// Div requires b strictly positive.
func (f *FP) Div(a, b Iv) Iv {
	if b.Lo.Sign() <= 0 {
		panic("ref.FP.Div: divisor not positive")
	}
	nl := new(big.Int).Mul(a.Lo, f.S)
	nh := new(big.Int).Mul(a.Hi, f.S)
	var lo, hi *big.Int
	if a.Lo.Sign() >= 0 {
		lo = floorDiv(nl, b.Hi)
	} else {
		lo = floorDiv(nl, b.Lo)
	}
	if a.Hi.Sign() >= 0 {
		hi = ceilDiv(nh, b.Lo)
	} else {
		hi = ceilDiv(nh, b.Hi)
	}
	return Iv{lo, hi}
}

// atanhPoint bounds atanh(y) = sum y^(2k+1)/(2k+1) for the fixed-point y with |y| <= 1/2:
// an upper bound if up, a lower bound otherwise.
func (f *FP) atanhPoint(y *big.Int, up bool) *big.Int {
	if y.Sign() == 0 {
		return new(big.Int)
	}
	if y.Sign() < 0 {
		r := f.atanhPoint(new(big.Int).Neg(y), !up)
		return r.Neg(r)
	}
	if new(big.Int).Lsh(y, 1).Cmp(f.S) > 0 {
		panic("ref.FP.atanh: argument above 1/2")
	}
	y2lo := floorDiv(new(big.Int).Mul(y, y), f.S)
	y2hi := ceilDiv(new(big.Int).Mul(y, y), f.S)
	sum := new(big.Int)
	pow := new(big.Int).Set(y) // bound of y^(2k+1), on the side given by up
	for k := int64(0); ; k++ {
		d := bi(2*k + 1)
		if up {
			sum.Add(sum, ceilDiv(pow, d))
			pow = ceilDiv(new(big.Int).Mul(pow, y2hi), f.S)
		} else {
			sum.Add(sum, floorDiv(pow, d))
			pow = floorDiv(new(big.Int).Mul(pow, y2lo), f.S)
		}
		if pow.Sign() == 0 || (up && pow.Cmp(one) <= 0) {
			if up {
				// tail <= y^(2k+3)/(1-y^2) <= (4/3) pow for y <= 1/2; add 2*pow+2
				sum.Add(sum, new(big.Int).Lsh(pow, 1))
				sum.Add(sum, bi(2))
			}
			return sum
		}
	}
}

func (f *FP) Atanh(y Iv) Iv { return Iv{f.atanhPoint(y.Lo, false), f.atanhPoint(y.Hi, true)} }

func (f *FP) Ln2() Iv {
	if f.ln2 == nil {
		third := Iv{floorDiv(f.S, bi(3)), ceilDiv(f.S, bi(3))}
		v := f.MulInt(f.Atanh(third), 2)
		f.ln2 = &v
	}
	return *f.ln2
}

func (f *FP) Ln10() Iv {
	if f.ln10 == nil {
		ninth := Iv{floorDiv(f.S, bi(9)), ceilDiv(f.S, bi(9))}
		v := f.Add(f.MulInt(f.Ln2(), 3), f.MulInt(f.Atanh(ninth), 2))
		f.ln10 = &v
	}
	return *f.ln10
}

// LnDec encloses ln(coef*10^exp) for coef > 0.
func (f *FP) LnDec(coef *big.Int, exp int64) Iv {
	nd := NDigits(coef)
	e := exp + nd - 1 // x = m*10^e with m in [1,10)
	num := new(big.Int).Set(coef)
	den := new(big.Int).Set(Pow10(nd - 1))
	j := int64(0)
	for new(big.Int).Mul(num, bi(3)).Cmp(new(big.Int).Mul(den, bi(4))) > 0 { // while m > 4/3
		den.Lsh(den, 1)
		j++
	}
	// s = num/den in (2/3, 4/3]; ln s = 2 atanh((s-1)/(s+1)), |(s-1)/(s+1)| <= 1/5
	yn := new(big.Int).Sub(num, den)
	yd := new(big.Int).Add(num, den)
	ynS := new(big.Int).Mul(yn, f.S)
	y := Iv{floorDiv(ynS, yd), ceilDiv(ynS, yd)}
	res := f.MulInt(f.Atanh(y), 2)
	if j != 0 {
		res = f.Add(res, f.MulInt(f.Ln2(), j))
	}
	if e != 0 {
		res = f.Add(res, f.MulInt(f.Ln10(), e))
	}
	return res
}

// ExpRes is the enclosure [Lo,Hi]/10^W * 10^N.
type ExpRes struct {
	Iv
	N int64
}

// expPoint bounds exp(t) for the fixed-point t with |t| <= 1/64.
func (f *FP) expPoint(t *big.Int, up bool) *big.Int {
	if t.Sign() < 0 {
		p := f.expPoint(new(big.Int).Neg(t), !up)
		s2 := new(big.Int).Mul(f.S, f.S)
		if up {
			return ceilDiv(s2, p)
		}
		return floorDiv(s2, p)
	}
	sum := new(big.Int).Set(f.S)
	term := new(big.Int).Set(f.S)
	for k := int64(1); ; k++ {
		m := new(big.Int).Mul(term, t)
		d := new(big.Int).Mul(f.S, bi(k))
		if up {
			term = ceilDiv(m, d)
		} else {
			term = floorDiv(m, d)
		}
		sum.Add(sum, term)
		if term.Sign() == 0 || (up && term.Cmp(one) <= 0) {
			if up {
				// tail <= term * r/(1-r) with r = t/(k+1) <= 1/64: below term; add 2*term+2
				sum.Add(sum, new(big.Int).Lsh(term, 1))
				sum.Add(sum, bi(2))
			}
			return sum
		}
	}
}

// Exp encloses exp(t) for the interval t.
func (f *FP) Exp(t Iv) ExpRes {
	ln10 := f.Ln10()
	mid := new(big.Int).Add(t.Lo, t.Hi)
	mid.Rsh(mid, 1)
	N := new(big.Int).Quo(mid, ln10.Lo).Int64()
	r := f.Sub(t, f.MulInt(ln10, N)) // about [-ln10, ln10]
	const k = 9
	rl := new(big.Int).Rsh(r.Lo, k) // arithmetic shift: floor
	rh := new(big.Int).Rsh(r.Hi, k)
	rh.Add(rh, one)
	if new(big.Int).Abs(rl).Cmp(floorDiv(f.S, bi(64))) > 0 || new(big.Int).Abs(rh).Cmp(floorDiv(f.S, bi(64))) > 0 {
		panic("ref.FP.Exp: reduced argument too large")
	}
	lo := f.expPoint(rl, false)
	hi := f.expPoint(rh, true)
	for i := 0; i < k; i++ {
		lo = floorDiv(new(big.Int).Mul(lo, lo), f.S)
		hi = ceilDiv(new(big.Int).Mul(hi, hi), f.S)
	}
	return ExpRes{Iv{lo, hi}, N}
}

// Log10Dec encloses log10(coef*10^exp).
func (f *FP) Log10Dec(coef *big.Int, exp int64) Iv { return f.Div(f.LnDec(coef, exp), f.Ln10()) }
