// C03: traps turn raised conditions into errors and never change or hide results.
// Oracle (metamorphic, no numeric model): the same call with an empty trap set and with
// trap set T; plus a model-based state machine for ErrDecimal (accumulated flags, first
// error, skip-after-error) whose every step is compared with the Context method of the
// same name on copies.
package c03

import (
	"fmt"
	"math/bits"
	"testing"

	"github.com/cockroachdb/apd/v3"
	"pgregory.net/rapid"
	"verif/harness/arith"
	"verif/harness/core"
	"verif/harness/gen"
)

type Case struct {
	Kind     string       `json:"kind"` // ctx | errdecimal
	Main     arith.Case   `json:"main"`
	TrapMode string       `json:"trapmode"` // mask | intersect
	K        int          `json:"k"`
	Steps    []arith.Case `json:"steps,omitempty"`
}

var single = []string{"add", "sub", "mul", "quo", "quointeger", "rem", "abs", "neg", "round", "quantize", "rtiv", "rtie", "reduce", "cmp", "ceil", "floor"}
var composite = []string{"sqrt", "cbrt", "exp", "ln", "log10", "pow"}
var wrappers = []string{"abs", "add", "ceil", "exp", "floor", "int64", "ln", "log10", "mul", "neg", "pow", "quantize", "quo", "quointeger", "reduce", "rem", "round", "sqrt", "sub", "rtiv", "rtie"}

const sysFlags = apd.SystemOverflow | apd.SystemUnderflow

func isComposite(op string) bool {
	for _, o := range composite {
		if o == op {
			return true
		}
	}
	return false
}

func genTraps(t *rapid.T) uint32 {
	switch gen.Pick(t, 10, "tk") {
	case 0, 1, 2, 3:
		return rapid.Uint32Range(0, 1<<12-1).Draw(t, "traps")
	case 4, 5, 6:
		return 1 << uint(gen.Pick(t, 12, "bit"))
	case 7:
		return uint32(apd.DefaultTraps)
	case 8:
		return 1<<12 - 1
	default:
		return uint32(apd.Inexact | apd.Rounded)
	}
}

func genOp(t *rapid.T, ops []string, maxP int) arith.Case {
	var c arith.Case
	c.Op = ops[gen.Pick(t, len(ops), "op")]
	mp := maxP
	if isComposite(c.Op) {
		mp = 20
	}
	c.Ctx = gen.Context(t, mp)
	op := c.Op
	if op == "cmp" {
		c.Op = "add"
	}
	if op == "int64" {
		c.Op = "rtie"
	}
	arith.FillOperands(t, &c)
	c.Op = op
	if op == "exp" && gen.Pick(t, 8, "bigexp") == 1 {
		// arguments beyond the reach of Exp's series (its large-argument path has inner steps
		// of its own), in contexts wide enough for the result, with MinExponent at or near zero
		v := rapid.IntRange(23000, 200000).Draw(t, "bev")
		c.X = core.Dec{Coeff: fmt.Sprint(v) + gen.Digits(t, 2, "bet"), Neg: gen.Pick(t, 3, "ben") == 0}
		c.X.Exp = -int32(len(c.X.Coeff) - len(fmt.Sprint(v)))
		c.Ctx.Emax = gen.Limit
		c.Ctx.Emin = -int32([]int{0, 1, 5, 100000}[gen.Pick(t, 4, "bemin")])
	}
	if gen.Pick(t, 10, "sp") == 0 {
		c.X = gen.Any(t, c.Ctx, "sx")
	}
	if gen.Pick(t, 12, "sp2") == 0 {
		c.X = gen.Special(t, "sx2")
	}
	if arith.Binary(c.Op) && c.X.Form >= 2 && gen.Pick(t, 2, "bothnan") == 0 {
		// two NaNs of the same class with different signs: which one propagates is observable
		c.Y = core.Dec{Form: c.X.Form, Neg: !c.X.Neg, Coeff: "0"}
	} else if arith.Binary(c.Op) && gen.Pick(t, 10, "spy") == 0 {
		c.Y = gen.Any(t, c.Ctx, "sy")
		if gen.Pick(t, 3, "zy") == 0 {
			c.Y = gen.Zero(t, c.Ctx, "zy")
		}
	}
	return c
}

func genCase(t *rapid.T) Case {
	var c Case
	if gen.Pick(t, 4, "kind") == 0 {
		c.Kind = "errdecimal"
		c.Main.Ctx = gen.Context(t, 20)
		c.Main.Ctx.Traps = genTraps(t)
		if gen.Pick(t, 3, "notraps") == 0 {
			c.Main.Ctx.Traps = 0
		}
		n := rapid.IntRange(1, 12).Draw(t, "steps")
		for i := 0; i < n; i++ {
			s := genOp(t, wrappers, 20)
			s.Ctx = c.Main.Ctx
			c.Steps = append(c.Steps, s)
			if gen.Pick(t, 10, "settraps") == 1 {
				// ErrDecimal.Ctx is an exported pointer: the caller may change the traps between
				// operations, and Err reports "the context's trap error if present"
				nt := arith.Case{Op: "settraps", Ctx: c.Main.Ctx, X: core.Dec{Coeff: "0"}, Y: core.Dec{Coeff: "0"}}
				nt.Ctx.Traps = genTraps(t)
				nt.QExp = int32(gen.Pick(t, 2, "poll")) // 1: the caller looks at Err() right after the change
				c.Steps = append(c.Steps, nt)
			}
		}
		return c
	}
	c.Kind = "ctx"
	if gen.Pick(t, 3, "comp") == 0 {
		c.Main = genOp(t, composite, 20)
	} else {
		c.Main = genOp(t, single, 400)
	}
	if gen.Pick(t, 5, "inter") == 0 {
		c.TrapMode = "intersect"
		c.K = rapid.IntRange(0, 11).Draw(t, "k")
	} else {
		c.TrapMode = "mask"
		c.Main.Ctx.Traps = genTraps(t)
	}
	return c
}

var sentinel = core.Dec{Form: 0, Neg: true, Coeff: "31337", Exp: -77}

func errStr(e error) string {
	if e == nil {
		return "<nil>"
	}
	return e.Error()
}

func check(c Case, st *core.Stats) error {
	st.Class(c.Kind)
	if c.Kind == "errdecimal" {
		return checkErrDecimal(c, st)
	}
	m := c.Main
	st.Class("op:" + m.Op)
	m0 := m
	m0.Ctx.Traps = 0
	var o0, oT arith.Out
	core.Guard(st, func() { o0 = arith.Call(m.Op, m0.Ctx.Apd(), sentinel.Apd(), m.X.Apd(), m.Y.Apd(), m.QExp, m.Str) })
	T := apd.Condition(m.Ctx.Traps)
	if c.TrapMode == "intersect" {
		// trap exactly one of the conditions the untrapped run raised
		if n := bits.OnesCount32(uint32(o0.Res)); n > 0 {
			k, r := c.K%n, uint32(o0.Res)
			for ; k > 0; k-- {
				r &= r - 1
			}
			T = apd.Condition(r & -r)
		} else {
			T = apd.Inexact
		}
	}
	mT := m
	mT.Ctx.Traps = uint32(T)
	core.Guard(st, func() { oT = arith.Call(m.Op, mT.Ctx.Apd(), sentinel.Apd(), m.X.Apd(), m.Y.Apd(), m.QExp, m.Str) })
	fires := o0.Res&T != 0
	comp := isComposite(m.Op)
	switch {
	case fires:
		st.NonTrivial("trap-fires")
	case comp && T != 0:
		st.NonTrivial("composite-under-traps")
	}
	if T == 0 {
		st.Class("empty-trap-set")
	}
	desc := fmt.Sprintf("%v traps=%s: untrapped (%s, %s, err=%s), trapped (%s, %s, err=%s)", m, core.FlagStr(T),
		core.Show(o0.D), core.FlagStr(o0.Res), errStr(o0.Err), core.Show(oT.D), core.FlagStr(oT.Res), errStr(oT.Err))
	if fires && oT.Err == nil {
		return fmt.Errorf("a trapped condition was raised but the error is nil: %s", desc)
	}
	if oT.Res&sysFlags != 0 && oT.Err == nil {
		return fmt.Errorf("a system exponent-limit condition was raised but the error is nil: %s", desc)
	}
	if oT.Err == nil {
		if !core.SameFields(oT.D, o0.D) || oT.Res != o0.Res || o0.Err != nil {
			return fmt.Errorf("nil error under traps but destination or Condition differ from the untrapped call: %s", desc)
		}
		return nil
	}
	if comp {
		st.Class("composite-error")
		return nil // spurious errors from internal steps are allowed for composite functions
	}
	// single-rounding operations
	if o0.Err != nil {
		// trap-independent error (system limit, precision 0): must be the same under traps
		if oT.Res != o0.Res {
			return fmt.Errorf("error without traps, different Condition under traps: %s", desc)
		}
		return nil
	}
	if oT.Res != o0.Res {
		return fmt.Errorf("the Condition depends on the trap set: %s", desc)
	}
	if oT.Res&(T|sysFlags) == 0 {
		return fmt.Errorf("error although no trapped or system condition was raised: %s", desc)
	}
	if !core.SameFields(oT.D, o0.D) {
		return fmt.Errorf("the result is not delivered alongside the trap error: %s", desc)
	}
	return nil
}

// call one wrapper of ErrDecimal; returns the destination and an extra value (Int64, Reduce count)
func wrapper(ed *apd.ErrDecimal, s arith.Case, d, x, y *apd.Decimal) (extra int64) {
	switch s.Op {
	case "abs":
		ed.Abs(d, x)
	case "add":
		ed.Add(d, x, y)
	case "ceil":
		ed.Ceil(d, x)
	case "exp":
		ed.Exp(d, x)
	case "floor":
		ed.Floor(d, x)
	case "int64":
		return ed.Int64(x)
	case "ln":
		ed.Ln(d, x)
	case "log10":
		ed.Log10(d, x)
	case "mul":
		ed.Mul(d, x, y)
	case "neg":
		ed.Neg(d, x)
	case "pow":
		ed.Pow(d, x, y)
	case "quantize":
		ed.Quantize(d, x, s.QExp)
	case "quo":
		ed.Quo(d, x, y)
	case "quointeger":
		ed.QuoInteger(d, x, y)
	case "reduce":
		n, _ := ed.Reduce(d, x)
		return int64(n)
	case "rem":
		ed.Rem(d, x, y)
	case "round":
		ed.Round(d, x)
	case "sqrt":
		ed.Sqrt(d, x)
	case "sub":
		ed.Sub(d, x, y)
	case "rtiv":
		ed.RoundToIntegralValue(d, x)
	case "rtie":
		ed.RoundToIntegralExact(d, x)
	default:
		panic("unknown wrapper " + s.Op)
	}
	return 0
}

func checkErrDecimal(c Case, st *core.Stats) error {
	ctx := c.Main.Ctx.Apd()
	ed := apd.MakeErrDecimal(ctx)
	var mFlags apd.Condition
	var mErr error
	hist := ""
	cur := c.Main.Ctx // the context as the caller has configured it so far
	for i, s := range c.Steps {
		hist += s.Op + " "
		if s.Op == "settraps" {
			ctx.Traps = apd.Condition(s.Ctx.Traps)
			cur.Traps = s.Ctx.Traps
			st.Class("traps-changed-mid-sequence")
			if mErr == nil && mFlags&apd.Condition(s.Ctx.Traps) != 0 {
				mErr = fmt.Errorf("accumulated %s now trapped", core.FlagStr(mFlags&apd.Condition(s.Ctx.Traps)))
				st.NonTrivial("accumulated-flag-becomes-trapped")
			}
			// Err() caches what it finds, so half of the time the caller does not look: the next
			// wrapper has to notice the pending trap error by itself
			if s.QExp == 1 && (ed.Err() == nil) != (mErr == nil) {
				return fmt.Errorf("ErrDecimal step %d: after the traps were set to %s with accumulated Flags %s, Err() = %v (history: %s)", i, core.FlagStr(apd.Condition(s.Ctx.Traps)), core.FlagStr(ed.Flags), ed.Err(), hist)
			}
			continue
		}
		d := sentinel.Apd()
		x, y := s.X.Apd(), s.Y.Apd()
		if mErr != nil {
			// once an error has occurred every later destination is left untouched
			var extra int64
			core.Guard(st, func() { extra = wrapper(&ed, s, d, x, y) })
			st.Class("step-after-error")
			if !core.SameFields(d, sentinel.Apd()) || extra != 0 {
				return fmt.Errorf("ErrDecimal step %d (%s) after an error wrote the destination: %s (history: %s)", i, s.Op, core.Show(d), hist)
			}
			if ed.Flags != mFlags {
				return fmt.Errorf("ErrDecimal step %d (%s) after an error changed Flags to %s (history: %s)", i, s.Op, core.FlagStr(ed.Flags), hist)
			}
			if ed.Err() == nil {
				return fmt.Errorf("ErrDecimal step %d (%s): the error disappeared (history: %s)", i, s.Op, hist)
			}
			continue
		}
		// expected: the Context method of the same name on copies
		var want arith.Out
		var wantInt int64
		var extra int64
		core.Guard(st, func() {
			if s.Op == "int64" {
				var e error
				wantInt, e = s.X.Apd().Int64()
				want = arith.Out{D: sentinel.Apd(), Err: e}
			} else {
				want = arith.Call(s.Op, cur.Apd(), sentinel.Apd(), s.X.Apd(), s.Y.Apd(), s.QExp, "")
				wantInt = int64(want.N)
			}
			extra = wrapper(&ed, s, d, x, y)
		})
		st.Class("wrapper:" + s.Op)
		mFlags |= want.Res
		mErr = want.Err
		if want.Err != nil {
			st.NonTrivial("errdecimal-step-errors")
		}
		if !core.SameFields(d, want.D) || extra != wantInt {
			return fmt.Errorf("ErrDecimal.%s step %d: destination %s extra=%d, Context method gives %s extra=%d flags=%s err=%s (history: %s)",
				s.Op, i, core.Show(d), extra, core.Show(want.D), wantInt, core.FlagStr(want.Res), errStr(want.Err), hist)
		}
		if ed.Flags != mFlags {
			return fmt.Errorf("ErrDecimal.%s step %d: accumulated Flags %s, expected %s (this step raised %s, err=%s) (history: %s)",
				s.Op, i, core.FlagStr(ed.Flags), core.FlagStr(mFlags), core.FlagStr(want.Res), errStr(want.Err), hist)
		}
		if (ed.Err() == nil) != (mErr == nil) {
			return fmt.Errorf("ErrDecimal.%s step %d: Err() = %v, Context method returned err=%s flags=%s (history: %s)", s.Op, i, ed.Err(), errStr(want.Err), core.FlagStr(want.Res), hist)
		}
		if !core.SameFields(x, s.X.Apd()) {
			return fmt.Errorf("ErrDecimal.%s step %d modified its operand", s.Op, i)
		}
	}
	if len(c.Steps) > 1 {
		st.NonTrivial("errdecimal-sequence")
	}
	return nil
}

func TestC03(t *testing.T)       { core.Run(t, "C03", genCase, check) }
func TestC03Replay(t *testing.T) { core.Replay(t, "C03", check) }
