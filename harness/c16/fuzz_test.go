package c16

import (
	"math/big"
	"testing"

	"github.com/cockroachdb/apd/v3"
)

// FuzzBigIntText compares BigInt's text entry points with math/big on raw bytes.
func FuzzBigIntText(f *testing.F) {
	for _, s := range []string{"0", "-0", "+5", "-5", "18446744073709551616", "-9223372036854775808", "0x1f", "0b101", "1_000", "", "-", " 1", "1 ", "zz", "340282366920938463463374607431768211456"} {
		for _, b := range []uint8{0, 2, 10, 16, 36, 62} {
			f.Add(s, b)
		}
	}
	f.Fuzz(func(t *testing.T, s string, b uint8) {
		if len(s) > 200 {
			return
		}
		base := int(b % 63)
		if base == 1 {
			base = 10
		}
		var a apd.BigInt
		var m big.Int
		a.SetInt64(77)
		m.SetInt64(77)
		_, okA := a.SetString(s, base)
		_, okM := m.SetString(s, base)
		if okA != okM || (okA && (a.MathBigInt().Cmp(&m) != 0 || a.Sign() != m.Sign() || a.String() != m.String())) {
			t.Fatalf("SetString(%q, %d): apd ok=%v %s sign=%d, math/big ok=%v %s", s, base, okA, a.String(), a.Sign(), okM, m.String())
		}
		var a2 apd.BigInt
		var m2 big.Int
		eA, eM := a2.UnmarshalText([]byte(s)), m2.UnmarshalText([]byte(s))
		if (eA == nil) != (eM == nil) || (eA == nil && (a2.MathBigInt().Cmp(&m2) != 0 || a2.Sign() != m2.Sign())) {
			t.Fatalf("UnmarshalText(%q): apd %v %s, math/big %v %s", s, eA, a2.String(), eM, m2.String())
		}
		var a3 apd.BigInt
		var m3 big.Int
		eA, eM = a3.UnmarshalJSON([]byte(s)), m3.UnmarshalJSON([]byte(s))
		if (eA == nil) != (eM == nil) || (eA == nil && (a3.MathBigInt().Cmp(&m3) != 0 || a3.Sign() != m3.Sign())) {
			t.Fatalf("UnmarshalJSON(%q): apd %v %s, math/big %v %s", s, eA, a3.String(), eM, m3.String())
		}
	})
}
