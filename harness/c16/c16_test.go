// C16: BigInt behaves exactly like math/big.Int. Model-based stateful testing: a pool of
// four BigInts mirrored by big.Ints is driven through generated method sequences with
// arbitrary receiver/argument aliasing. Expected state = math/big applied to unaliased
// copies of the same values; an alias pattern is in the domain only if math/big itself,
// called with that pattern, agrees with its own unaliased result.
package c16

import (
	"bytes"
	"encoding/gob"
	"encoding/json"
	"fmt"
	"math/big"
	"math/rand"
	"reflect"
	"testing"

	"github.com/cockroachdb/apd/v3"
	"pgregory.net/rapid"
	"verif/harness/core"
	"verif/harness/gen"
)

const poolSize = 4

type Step struct {
	Op         string `json:"op"`
	Z, X, Y, R int
	N          int64  `json:"n"`
	S          string `json:"s,omitempty"`
}

type Case struct {
	Init  [poolSize]string `json:"init"`
	Steps []Step           `json:"steps"`
}

// args of one call, for either implementation
type bargs struct {
	z, x, y, r *big.Int
	n          int64
	s          string
}
type aargs struct {
	z, x, y, r *apd.BigInt
	n          int64
	s          string
}

type opDef struct {
	name   string
	writes string // which of z, r, x, y the call may write ("z", "zr", "zxy")
	big    func(a bargs) any
	apd    func(a aargs) any
}

func ptrRes(p, z any) string { // normalise a returned receiver pointer
	if reflect.ValueOf(p).IsNil() {
		return "nil"
	}
	if p == z {
		return "z"
	}
	return "other"
}

func sh(n int64) uint { return uint(n % 300) }

var ops = []opDef{
	{"Add", "z", func(a bargs) any { return ptrRes(a.z.Add(a.x, a.y), a.z) }, func(a aargs) any { return ptrRes(a.z.Add(a.x, a.y), a.z) }},
	{"Sub", "z", func(a bargs) any { return ptrRes(a.z.Sub(a.x, a.y), a.z) }, func(a aargs) any { return ptrRes(a.z.Sub(a.x, a.y), a.z) }},
	{"Mul", "z", func(a bargs) any { return ptrRes(a.z.Mul(a.x, a.y), a.z) }, func(a aargs) any { return ptrRes(a.z.Mul(a.x, a.y), a.z) }},
	{"Quo", "z", func(a bargs) any { return ptrRes(a.z.Quo(a.x, a.y), a.z) }, func(a aargs) any { return ptrRes(a.z.Quo(a.x, a.y), a.z) }},
	{"Rem", "z", func(a bargs) any { return ptrRes(a.z.Rem(a.x, a.y), a.z) }, func(a aargs) any { return ptrRes(a.z.Rem(a.x, a.y), a.z) }},
	{"Div", "z", func(a bargs) any { return ptrRes(a.z.Div(a.x, a.y), a.z) }, func(a aargs) any { return ptrRes(a.z.Div(a.x, a.y), a.z) }},
	{"Mod", "z", func(a bargs) any { return ptrRes(a.z.Mod(a.x, a.y), a.z) }, func(a aargs) any { return ptrRes(a.z.Mod(a.x, a.y), a.z) }},
	{"QuoRem", "zr", func(a bargs) any { q, r := a.z.QuoRem(a.x, a.y, a.r); return ptrRes(q, a.z) + ptrRes(r, a.r) },
		func(a aargs) any { q, r := a.z.QuoRem(a.x, a.y, a.r); return ptrRes(q, a.z) + ptrRes(r, a.r) }},
	{"DivMod", "zr", func(a bargs) any { q, r := a.z.DivMod(a.x, a.y, a.r); return ptrRes(q, a.z) + ptrRes(r, a.r) },
		func(a aargs) any { q, r := a.z.DivMod(a.x, a.y, a.r); return ptrRes(q, a.z) + ptrRes(r, a.r) }},
	{"Neg", "z", func(a bargs) any { return ptrRes(a.z.Neg(a.x), a.z) }, func(a aargs) any { return ptrRes(a.z.Neg(a.x), a.z) }},
	{"Abs", "z", func(a bargs) any { return ptrRes(a.z.Abs(a.x), a.z) }, func(a aargs) any { return ptrRes(a.z.Abs(a.x), a.z) }},
	{"Set", "z", func(a bargs) any { return ptrRes(a.z.Set(a.x), a.z) }, func(a aargs) any { return ptrRes(a.z.Set(a.x), a.z) }},
	{"And", "z", func(a bargs) any { return ptrRes(a.z.And(a.x, a.y), a.z) }, func(a aargs) any { return ptrRes(a.z.And(a.x, a.y), a.z) }},
	{"Or", "z", func(a bargs) any { return ptrRes(a.z.Or(a.x, a.y), a.z) }, func(a aargs) any { return ptrRes(a.z.Or(a.x, a.y), a.z) }},
	{"Xor", "z", func(a bargs) any { return ptrRes(a.z.Xor(a.x, a.y), a.z) }, func(a aargs) any { return ptrRes(a.z.Xor(a.x, a.y), a.z) }},
	{"AndNot", "z", func(a bargs) any { return ptrRes(a.z.AndNot(a.x, a.y), a.z) }, func(a aargs) any { return ptrRes(a.z.AndNot(a.x, a.y), a.z) }},
	{"Not", "z", func(a bargs) any { return ptrRes(a.z.Not(a.x), a.z) }, func(a aargs) any { return ptrRes(a.z.Not(a.x), a.z) }},
	{"Lsh", "z", func(a bargs) any { return ptrRes(a.z.Lsh(a.x, sh(a.n)), a.z) }, func(a aargs) any { return ptrRes(a.z.Lsh(a.x, sh(a.n)), a.z) }},
	{"Rsh", "z", func(a bargs) any { return ptrRes(a.z.Rsh(a.x, sh(a.n)), a.z) }, func(a aargs) any { return ptrRes(a.z.Rsh(a.x, sh(a.n)), a.z) }},
	{"Sqrt", "z", func(a bargs) any { return ptrRes(a.z.Sqrt(a.x), a.z) }, func(a aargs) any { return ptrRes(a.z.Sqrt(a.x), a.z) }},
	{"SetBit", "z", func(a bargs) any { return ptrRes(a.z.SetBit(a.x, int(a.n%260), uint(a.n>>9)&1), a.z) },
		func(a aargs) any { return ptrRes(a.z.SetBit(a.x, int(a.n%260), uint(a.n>>9)&1), a.z) }},
	{"Exp", "z", func(a bargs) any { return ptrRes(a.z.Exp(a.x, big.NewInt(a.n%7), nil), a.z) },
		func(a aargs) any { return ptrRes(a.z.Exp(a.x, apd.NewBigInt(a.n%7), nil), a.z) }},
	{"ExpMod", "z", func(a bargs) any {
		if a.r.Sign() == 0 {
			return "no-modulus"
		}
		return ptrRes(a.z.Exp(a.x, a.y, a.r), a.z)
	}, func(a aargs) any {
		if a.r.Sign() == 0 {
			return "no-modulus"
		}
		return ptrRes(a.z.Exp(a.x, a.y, a.r), a.z)
	}},
	{"GCD", "z", func(a bargs) any { return ptrRes(a.z.GCD(nil, nil, a.x, a.y), a.z) }, func(a aargs) any { return ptrRes(a.z.GCD(nil, nil, a.x, a.y), a.z) }},
	{"ModInverse", "z", func(a bargs) any { return ptrRes(a.z.ModInverse(a.x, a.y), a.z) }, func(a aargs) any { return ptrRes(a.z.ModInverse(a.x, a.y), a.z) }},
	{"ModSqrt", "z", func(a bargs) any { return ptrRes(a.z.ModSqrt(a.x, big.NewInt(smallPrime(a.n))), a.z) },
		func(a aargs) any { return ptrRes(a.z.ModSqrt(a.x, apd.NewBigInt(smallPrime(a.n))), a.z) }},
	{"MulRange", "z", func(a bargs) any { return ptrRes(a.z.MulRange(a.n%40-5, a.n%40+a.n%17), a.z) },
		func(a aargs) any { return ptrRes(a.z.MulRange(a.n%40-5, a.n%40+a.n%17), a.z) }},
	{"Binomial", "z", func(a bargs) any { return ptrRes(a.z.Binomial(a.n%90, a.n%31), a.z) }, func(a aargs) any { return ptrRes(a.z.Binomial(a.n%90, a.n%31), a.z) }},
	{"SetInt64", "z", func(a bargs) any { return ptrRes(a.z.SetInt64(a.n), a.z) }, func(a aargs) any { return ptrRes(a.z.SetInt64(a.n), a.z) }},
	{"SetUint64", "z", func(a bargs) any { return ptrRes(a.z.SetUint64(uint64(a.n)), a.z) }, func(a aargs) any { return ptrRes(a.z.SetUint64(uint64(a.n)), a.z) }},
	// after a failed SetString the value of z is undefined in math/big: both sides reset it
	{"SetString", "z", func(a bargs) any {
		_, ok := a.z.SetString(a.s, base(a.n))
		if !ok {
			a.z.SetInt64(0)
		}
		return ok
	}, func(a aargs) any {
		r, ok := a.z.SetString(a.s, base(a.n))
		if !ok {
			a.z.SetInt64(0)
		}
		return fmt.Sprint(ok, r == nil) == fmt.Sprint(ok, !ok) && ok
	}},
	{"UnmarshalText", "z", func(a bargs) any {
		e := a.z.UnmarshalText([]byte(a.s))
		if e != nil {
			a.z.SetInt64(0)
		}
		return e == nil
	}, func(a aargs) any {
		e := a.z.UnmarshalText([]byte(a.s))
		if e != nil {
			a.z.SetInt64(0)
		}
		return e == nil
	}},
	{"UnmarshalJSON", "z", func(a bargs) any {
		e := a.z.UnmarshalJSON([]byte(a.s))
		if e != nil {
			a.z.SetInt64(0)
		}
		return e == nil
	}, func(a aargs) any {
		e := a.z.UnmarshalJSON([]byte(a.s))
		if e != nil {
			a.z.SetInt64(0)
		}
		return e == nil
	}},
	// Sqrt of a value given as text (the generator aims it at neighbourhoods of perfect squares)
	{"SqrtOf", "z", func(a bargs) any {
		v, ok := new(big.Int).SetString(a.s, 10)
		if !ok {
			return "bad"
		}
		return ptrRes(a.z.Sqrt(v), a.z)
	}, func(a aargs) any {
		v, ok := new(apd.BigInt).SetString(a.s, 10)
		if !ok {
			return "bad"
		}
		return ptrRes(a.z.Sqrt(v), a.z)
	}},
	// value semantics at the math/big bridge: the integer MathBigInt hands out and the one
	// SetMathBigInt was given are the caller's; changing them in place must not reach the BigInt
	{"MathBigIntThenMutate", "", func(a bargs) any { return a.x.String() }, func(a aargs) any {
		m := a.x.MathBigInt()
		res := m.String()
		m.Lsh(m, 70)
		m.Add(m, big.NewInt(1))
		m.Neg(m)
		return res
	}},
	{"SetMathBigIntThenMutate", "z", func(a bargs) any { a.z.Set(a.x); return a.z.String() }, func(a aargs) any {
		m := new(big.Int).Set(a.x.MathBigInt())
		a.z.SetMathBigInt(m)
		res := a.z.String()
		m.Lsh(m, 70)
		m.Add(m, big.NewInt(1))
		m.Neg(m)
		return res
	}},
	{"SetBytes", "z", func(a bargs) any { return ptrRes(a.z.SetBytes(a.x.Bytes()), a.z) }, func(a aargs) any { return ptrRes(a.z.SetBytes(a.x.Bytes()), a.z) }},
	{"SetBits", "z", func(a bargs) any { return ptrRes(a.z.SetBits(append([]big.Word(nil), a.x.Bits()...)), a.z) },
		func(a aargs) any { return ptrRes(a.z.SetBits(append([]big.Word(nil), a.x.Bits()...)), a.z) }},
	{"Text", "z", func(a bargs) any { _, ok := a.z.SetString(a.x.Text(tbase(a.n)), tbase(a.n)); return fmt.Sprint(ok, a.x.Text(tbase(a.n))) },
		func(a aargs) any { _, ok := a.z.SetString(a.x.Text(tbase(a.n)), tbase(a.n)); return fmt.Sprint(ok, a.x.Text(tbase(a.n))) }},
	{"Append", "", func(a bargs) any { return string(a.x.Append([]byte("p"), tbase(a.n))) }, func(a aargs) any { return string(a.x.Append([]byte("p"), tbase(a.n))) }},
	{"MarshalText", "z", func(a bargs) any { b, e := a.x.MarshalText(); e2 := a.z.UnmarshalText(b); return fmt.Sprint(string(b), e, e2) },
		func(a aargs) any { b, e := a.x.MarshalText(); e2 := a.z.UnmarshalText(b); return fmt.Sprint(string(b), e, e2) }},
	{"MarshalJSON", "z", func(a bargs) any { b, e := json.Marshal(a.x); e2 := json.Unmarshal(b, a.z); return fmt.Sprint(string(b), e, e2) },
		func(a aargs) any { b, e := json.Marshal(a.x); e2 := json.Unmarshal(b, a.z); return fmt.Sprint(string(b), e, e2) }},
	{"Gob", "z", func(a bargs) any {
		var buf bytes.Buffer
		e := gob.NewEncoder(&buf).Encode(a.x)
		e2 := gob.NewDecoder(&buf).Decode(a.z)
		return fmt.Sprint(e, e2)
	}, func(a aargs) any {
		var buf bytes.Buffer
		e := gob.NewEncoder(&buf).Encode(a.x)
		e2 := gob.NewDecoder(&buf).Decode(a.z)
		return fmt.Sprint(e, e2)
	}},
	{"FormatScan", "z", func(a bargs) any {
		s := fmt.Sprintf(fverb(a.n), a.x)
		_, e := fmt.Sscan(fmt.Sprintf("%d", a.x), a.z)
		return fmt.Sprint(s, e)
	}, func(a aargs) any {
		s := fmt.Sprintf(fverb(a.n), a.x)
		_, e := fmt.Sscan(fmt.Sprintf("%d", a.x), a.z)
		return fmt.Sprint(s, e)
	}},
	// Scan of a text with a verb: the value, the error and what is left unread must agree
	{"ScanText", "z", func(a bargs) any {
		var rest string
		n, e := fmt.Sscanf(a.s, scanVerb(a.n)+"%s", a.z, &rest)
		if n == 0 {
			a.z.SetInt64(0) // the receiver's value after a failed Scan is unspecified (as for SetString)
		}
		return fmt.Sprint(n, e != nil, rest, a.z.String())
	}, func(a aargs) any {
		var rest string
		n, e := fmt.Sscanf(a.s, scanVerb(a.n)+"%s", a.z, &rest)
		if n == 0 {
			a.z.SetInt64(0)
		}
		return fmt.Sprint(n, e != nil, rest, a.z.String())
	}},
	{"FillBytes", "", func(a bargs) any { return fmt.Sprintf("%x", a.x.FillBytes(make([]byte, (a.x.BitLen()+7)/8+int(a.n%3)))) },
		func(a aargs) any { return fmt.Sprintf("%x", a.x.FillBytes(make([]byte, (a.x.BitLen()+7)/8+int(a.n%3)))) }},
	{"Cmp", "", func(a bargs) any { return fmt.Sprint(a.x.Cmp(a.y), a.x.CmpAbs(a.y)) }, func(a aargs) any { return fmt.Sprint(a.x.Cmp(a.y), a.x.CmpAbs(a.y)) }},
	{"Bit", "", func(a bargs) any { return fmt.Sprint(a.x.Bit(int(a.n%260)), a.x.TrailingZeroBits(), a.x.ProbablyPrime(int(a.n%3))) },
		func(a aargs) any { return fmt.Sprint(a.x.Bit(int(a.n%260)), a.x.TrailingZeroBits(), a.x.ProbablyPrime(int(a.n%3))) }},
	{"Rand", "z", func(a bargs) any { return ptrRes(a.z.Rand(rand.New(rand.NewSource(a.n)), new(big.Int).Abs(a.x)), a.z) },
		func(a aargs) any { return ptrRes(a.z.Rand(rand.New(rand.NewSource(a.n)), new(apd.BigInt).Abs(a.x)), a.z) }},
	{"GCDxy", "zry", func(a bargs) any { return ptrRes(a.z.GCD(a.r, a.y, new(big.Int).Set(a.x), big.NewInt(a.n%1000+1)), a.z) },
		func(a aargs) any { return ptrRes(a.z.GCD(a.r, a.y, new(apd.BigInt).Set(a.x), apd.NewBigInt(a.n%1000+1)), a.z) }},
}

func smallPrime(n int64) int64 { return []int64{2, 3, 5, 7, 13, 17, 101, 65537, 2147483647}[n%9] }
func base(n int64) int        { return []int{10, 2, 16, 36, 8, 3, 62, 0, 10}[n%9] }
func tbase(n int64) int {
	if b := base(n); b != 0 {
		return b
	}
	return 7
}
func fverb(n int64) string {
	return []string{"%d", "%x", "%X", "%o", "%b", "%s", "%v", "%+d", "%08d", "%-8d|", "% d", "%#x", "%10.4d"}[n%13]
}

var opIndex = func() map[string]int {
	m := map[string]int{}
	for i, o := range ops {
		m[o.name] = i
	}
	return m
}()

var pseudoprimes = []string{"561", "1105", "1729", "2047", "1373653", "9080191", "25326001", "3215031751", "4759123141", "1122004669633", "2152302898747",
	"3474749660383", "341550071728321", "3825123056546413051", "318665857834031151167461", "3317044064679887385961981",
	"2305843009213693951", "18446744073709551557", "18446744073709551629", "9223372036854775783", "170141183460469231731687303715884105727", "4294967291", "4294967311"}

func genValue(t *rapid.T, label string) *big.Int {
	var v *big.Int
	switch gen.Pick(t, 8, label+"k") {
	case 7: // neighbourhood of a perfect square (the natural boundary of Sqrt), root up to 2^66
		r := new(big.Int).SetUint64(rapid.Uint64().Draw(t, label+"root"))
		r.Rsh(r, uint(rapid.IntRange(0, 40).Draw(t, label+"rsh")))
		if gen.Pick(t, 4, label+"wide") == 0 {
			r.Lsh(r, uint(rapid.IntRange(1, 3).Draw(t, label+"lsh")))
		}
		v = new(big.Int).Mul(r, r)
		v.Add(v, big.NewInt(int64(rapid.IntRange(-2, 2).Draw(t, label+"sd"))))
		if v.Sign() < 0 {
			v.SetInt64(0)
		}
		return v // non-negative: Sqrt of a negative panics in both implementations
	case 0:
		v = big.NewInt(int64(rapid.IntRange(-3, 3).Draw(t, label+"s")))
		if gen.Pick(t, 3, label+"psp") == 0 {
			// composites that fool restricted primality tests (strong pseudoprimes to the first
			// k prime bases, Carmichael numbers) and primes next to word boundaries: the natural
			// boundary values of ProbablyPrime
			v, _ = new(big.Int).SetString(pseudoprimes[gen.Pick(t, len(pseudoprimes), label+"pspk")], 10)
		} else if gen.Pick(t, 2, label+"ext") == 0 {
			// the extremes of the machine integer types, exactly: where a fast path written in
			// int64/uint64 arithmetic wraps (MinInt64 / -1, -MinInt64, MaxUint64 + 1)
			v, _ = new(big.Int).SetString([]string{"-9223372036854775808", "9223372036854775808", "9223372036854775807", "18446744073709551615",
				"-2147483648", "4294967295", "-9223372036854775807", "340282366920938463463374607431768211455", "-1", "1"}[gen.Pick(t, 10, label+"extk")], 10)
			return v
		}
	case 1, 2:
		b := rapid.SampledFrom([]uint{31, 32, 33, 62, 63, 64, 65, 126, 127, 128, 129, 130, 192, 256}).Draw(t, label+"b")
		v = new(big.Int).Lsh(big.NewInt(1), b)
		v.Add(v, big.NewInt(int64(rapid.IntRange(-3, 3).Draw(t, label+"d"))))
		if gen.Pick(t, 4, label+"pow2diff") == 0 {
			// 2^b - 2^i: a word of ones above bit i (clearing or setting bit i carries through it)
			v = new(big.Int).Lsh(big.NewInt(1), b)
			v.Sub(v, new(big.Int).Lsh(big.NewInt(1), uint(rapid.IntRange(0, int(b)-1).Draw(t, label+"pi"))))
		}
	case 3:
		v = big.NewInt(rapid.Int64().Draw(t, label+"i"))
	case 4:
		v = new(big.Int).SetUint64(rapid.Uint64().Draw(t, label+"u"))
	case 5:
		v, _ = new(big.Int).SetString(gen.Digits(t, 50, label+"dec"), 10)
	default:
		n := rapid.IntRange(1, 60).Draw(t, label+"n")
		if gen.Pick(t, 10, label+"huge") == 0 {
			n = rapid.IntRange(60, 500).Draw(t, label+"n2")
		}
		v = new(big.Int).SetBytes(rapid.SliceOfN(rapid.Byte(), n, n).Draw(t, label+"bytes"))
	}
	if rapid.Bool().Draw(t, label+"neg") {
		v.Neg(v)
	}
	return v
}

func genCase(t *rapid.T) Case {
	var c Case
	for i := range c.Init {
		c.Init[i] = genValue(t, fmt.Sprintf("init%d", i)).String()
	}
	n := rapid.IntRange(1, 40).Draw(t, "steps")
	for i := 0; i < n; i++ {
		var s Step
		s.Op = ops[gen.Pick(t, len(ops), "op")].name
		s.Z = rapid.IntRange(0, poolSize-1).Draw(t, "z")
		s.X = rapid.IntRange(0, poolSize-1).Draw(t, "x")
		s.Y = rapid.IntRange(0, poolSize-1).Draw(t, "y")
		s.R = rapid.IntRange(0, poolSize-1).Draw(t, "r")
		s.N = int64(rapid.Uint32().Draw(t, "n"))
		if (s.Op == "SetBit" || s.Op == "Bit") && gen.Pick(t, 2, "bitidx") == 0 {
			// bit indices at the word boundaries, with either bit value
			s.N = int64([]int{0, 1, 30, 31, 32, 33, 62, 63, 64, 65, 126, 127, 128, 129}[gen.Pick(t, 14, "bitk")]) + int64(gen.Pick(t, 2, "bitv"))<<9
		}
		if s.Op == "SetInt64" || s.Op == "SetUint64" || s.Op == "Rand" {
			s.N = rapid.Int64().Draw(t, "n64")
		}
		if s.Op == "UnmarshalText" || s.Op == "UnmarshalJSON" {
			// base-0 text: decimal, leading-zero (octal), prefixed and underscored forms
			switch gen.Pick(t, 4, "utk") {
			case 0:
				s.S = genValue(t, "ustr").String()
			case 1:
				s.S = "0" + gen.Digits(t, 12, "oct")
				if rapid.Bool().Draw(t, "uneg") {
					s.S = "-" + s.S
				}
			case 2:
				s.S = rapid.SampledFrom([]string{"0x1f", "-0b101", "0o17", "1_000", "017", "-0", "+5", "", "12a", "0x", " 1", "010", "-0755", "08", "-09", "0019", "null", "\"5\"", "1e3"}).Draw(t, "us0")
			default:
				s.S = genValue(t, "ustr2").Text(10)
			}
		}
		if s.Op == "ScanText" {
			num := genValue(t, "scanv").Text([]int{10, 10, 16, 8, 2}[gen.Pick(t, 5, "scanb")])
			tails := []string{"", "", "+3", "-4", "-", "+", "abc", "_1", ".5", "e3", " 7", "x", "0x1", "++", "/2"}
			s.S = []string{"", "", "+", "0x", "0b", "0"}[gen.Pick(t, 6, "scanp")] + num + tails[gen.Pick(t, len(tails), "scant")]
		}
		if s.Op == "SqrtOf" {
			// r^2 + d for a root of every bit length up to 66
			bits := rapid.IntRange(1, 66).Draw(t, "rootbits")
			r := new(big.Int).SetUint64(rapid.Uint64().Draw(t, "rootv"))
			r.SetBit(r, 63, 1)
			if bits <= 64 {
				r.Rsh(r, uint(64-bits))
			} else {
				r.Lsh(r, uint(bits-64))
			}
			v := new(big.Int).Mul(r, r)
			v.Add(v, big.NewInt(int64(rapid.IntRange(-2, 2).Draw(t, "sqd"))))
			if v.Sign() < 0 {
				v.SetInt64(0)
			}
			s.S = v.String()
		}
		if s.Op == "SetString" {
			if b := base(s.N); b != 0 {
				s.S = genValue(t, "str").Text(b)
			} else {
				s.S = rapid.SampledFrom([]string{"0x1f", "-0b101", "0o17", "1_000", "017", "-0", "+5", "", "12a", "0x", " 1"}).Draw(t, "s0")
			}
			if gen.Pick(t, 6, "bad") == 0 {
				s.S = rapid.SampledFrom([]string{"", "-", "+", "--1", "1 ", " 1", "1e5", "0x10", "zz", "-0", "+0", "00012", "-000"}).Draw(t, "sbad")
			}
		}
		c.Steps = append(c.Steps, s)
	}
	return c
}

func catch(f func() any) (ret any, pan any) {
	defer func() { pan = recover() }()
	return f(), nil
}

func reprInvariant(a *apd.BigInt) error {
	inline, neg, words, heap := a.VerifRepr()
	if inline {
		allZero := true
		for _, w := range words {
			if w != 0 {
				allZero = false
			}
		}
		if neg && allZero {
			return fmt.Errorf("inline negative zero (negSentinel with all-zero words)")
		}
	} else if heap == 0 {
		return fmt.Errorf("heap representation with nil pointer")
	}
	return nil
}

func observe(a *apd.BigInt, m *big.Int) error {
	if err := reprInvariant(a); err != nil {
		return err
	}
	got := a.MathBigInt()
	if got.Sign() == 0 && got.Cmp(new(big.Int)) != 0 {
		return fmt.Errorf("holds math/big's denormalised negative zero (Sign 0 but Cmp(0) != 0)")
	}
	switch {
	case got.Cmp(m) != 0:
		return fmt.Errorf("value %s, want %s", got, m)
	case a.Sign() != m.Sign():
		return fmt.Errorf("Sign() = %d, want %d (value %s)", a.Sign(), m.Sign(), m)
	case a.BitLen() != m.BitLen():
		return fmt.Errorf("BitLen() = %d, want %d", a.BitLen(), m.BitLen())
	case a.Cmp(new(apd.BigInt)) != m.Cmp(new(big.Int)):
		return fmt.Errorf("Cmp(0) = %d, want %d (value %s)", a.Cmp(new(apd.BigInt)), m.Cmp(new(big.Int)), m)
	case a.IsUint64() != m.IsUint64():
		return fmt.Errorf("IsUint64() = %v, want %v (value %s)", a.IsUint64(), m.IsUint64(), m)
	case a.IsInt64() != m.IsInt64():
		return fmt.Errorf("IsInt64() = %v, want %v (value %s)", a.IsInt64(), m.IsInt64(), m)
	case a.String() != m.String():
		return fmt.Errorf("String() = %q, want %q", a.String(), m.String())
	case a.Text(2) != m.Text(2) || a.Text(16) != m.Text(16) || a.Text(36) != m.Text(36):
		return fmt.Errorf("Text(2/16/36) differs for %s", m)
	case string(a.Append(nil, 10)) != string(m.Append(nil, 10)):
		return fmt.Errorf("Append(10) = %q, want %q", a.Append(nil, 10), m.Append(nil, 10))
	case a.Int64() != m.Int64() || a.Uint64() != m.Uint64():
		return fmt.Errorf("Int64/Uint64 = %d/%d, want %d/%d (value %s)", a.Int64(), a.Uint64(), m.Int64(), m.Uint64(), m)
	case a.Bit(0) != m.Bit(0) || a.Bit(63) != m.Bit(63) || a.Bit(64) != m.Bit(64) || a.Bit(128) != m.Bit(128):
		return fmt.Errorf("Bit differs for %s", m)
	case a.TrailingZeroBits() != m.TrailingZeroBits():
		return fmt.Errorf("TrailingZeroBits = %d, want %d", a.TrailingZeroBits(), m.TrailingZeroBits())
	case !reflect.DeepEqual(a.Bytes(), m.Bytes()):
		return fmt.Errorf("Bytes differ for %s", m)
	}
	return nil
}

func check(c Case, st *core.Stats) error {
	var pool [poolSize]apd.BigInt
	var mir [poolSize]*big.Int
	for i := range pool {
		v, ok := new(big.Int).SetString(c.Init[i], 10)
		if !ok {
			return nil
		}
		mir[i] = v
		pool[i].SetMathBigInt(v)
		if err := observe(&pool[i], mir[i]); err != nil {
			return fmt.Errorf("after SetMathBigInt(%s): %v", v, err)
		}
	}
	hist := ""
	for si, s := range c.Steps {
		od := ops[opIndex[s.Op]]
		two := len(od.writes) >= 2
		if two && (s.R == s.Z || (od.name == "GCDxy" && (s.Y == s.Z || s.Y == s.R))) {
			st.Class("skipped:two-outputs-same-object")
			continue
		}
		if mir[s.X].BitLen() > 6000 || mir[s.Y].BitLen() > 6000 {
			switch s.Op {
			case "Mul", "Exp", "Lsh", "ExpMod", "Add", "Sub", "SetBit":
				st.Class("skipped:size-cap")
				continue
			}
		}
		hist += fmt.Sprintf("%s(z=%d,x=%d,y=%d,r=%d,n=%d,s=%q); ", s.Op, s.Z, s.X, s.Y, s.R, s.N, s.S)
		cp := func(i int) *big.Int { return new(big.Int).Set(mir[i]) }
		// 1. expected: math/big on unaliased copies
		ez, ex, ey, er := cp(s.Z), cp(s.X), cp(s.Y), cp(s.R)
		wantRet, wantPanic := catch(func() any { return od.big(bargs{ez, ex, ey, er, s.N, s.S}) })
		// math/big can leave its sign field set on a zero (GCD cofactors); its own Sign()
		// reports 0 for it, so the mirror is normalised to the canonical zero.
		for _, v := range []*big.Int{ez, ex, ey, er} {
			if v.Sign() == 0 {
				v.SetInt64(0)
			}
		}
		expect := [poolSize]*big.Int{}
		for i := range expect {
			expect[i] = cp(i)
		}
		if wantPanic == nil {
			for _, w := range od.writes {
				switch w {
				case 'z':
					expect[s.Z] = ez
				case 'r':
					expect[s.R] = er
				case 'y':
					expect[s.Y] = ey
				}
			}
			if ex.Cmp(mir[s.X]) != 0 && !containsIdx(od, s, s.X) {
				return fmt.Errorf("reference itself modified an input (harness error)")
			}
		}
		// 2. does math/big support this alias pattern? run it on the mirror objects
		snap := [poolSize]*big.Int{}
		for i := range snap {
			snap[i] = cp(i)
		}
		aliasRet, aliasPanic := catch(func() any { return od.big(bargs{mir[s.Z], mir[s.X], mir[s.Y], mir[s.R], s.N, s.S}) })
		supported := (aliasPanic == nil) == (wantPanic == nil)
		if supported && wantPanic == nil {
			supported = reflect.DeepEqual(aliasRet, wantRet)
			for i := range mir {
				if mir[i].Sign() == 0 {
					mir[i].SetInt64(0)
				}
				if mir[i].Cmp(expect[i]) != 0 {
					supported = false
				}
			}
		}
		if !supported {
			st.Class("skipped:alias-pattern-unsupported-by-math/big")
			for i := range mir {
				mir[i] = snap[i]
			}
			continue
		}
		// 3. the implementation under test, same alias pattern
		var gotRet, gotPanic any
		core.Guard(st, func() {
			gotRet, gotPanic = catch(func() any { return od.apd(aargs{&pool[s.Z], &pool[s.X], &pool[s.Y], &pool[s.R], s.N, s.S}) })
		})
		aliased := s.Z == s.X || s.Z == s.Y || s.X == s.Y || (two && (s.R == s.X || s.R == s.Y))
		if (gotPanic == nil) != (wantPanic == nil) {
			return fmt.Errorf("step %d %s: apd panic=%v, math/big panic=%v; history: %s", si, s.Op, gotPanic, wantPanic, hist)
		}
		if wantPanic != nil {
			st.Class("panics-like-math/big")
			return nil // state after a panic is unspecified
		}
		st.Class("op:" + s.Op)
		if !reflect.DeepEqual(gotRet, wantRet) {
			return fmt.Errorf("step %d %s: returned %v, math/big returns %v; history: %s", si, s.Op, gotRet, wantRet, hist)
		}
		for i := range mir {
			mir[i] = expect[i]
			if err := observe(&pool[i], mir[i]); err != nil {
				return fmt.Errorf("step %d %s: pool[%d]: %v; history: %s", si, s.Op, i, err, hist)
			}
		}
		switch {
		case aliased:
			st.NonTrivial("aliased-call")
		case expect[s.Z].Sign() == 0 && od.writes != "":
			st.NonTrivial("zero-result")
		case straddles(snap[s.X]) || straddles(snap[s.Y]) || straddles(expect[s.Z]):
			st.NonTrivial("straddles-64/128-bit-boundary")
		}
		if od.writes != "" && snap[s.Z].BitLen() > 128 && expect[s.Z].BitLen() <= 64 {
			st.Class("heap-receiver-shrinks-to-64-bits")
		}
		if od.writes != "" && snap[s.Z].BitLen() > 128 && expect[s.Z].Sign() == 0 {
			st.Class("heap-receiver-becomes-zero")
		}
	}
	return nil
}

func containsIdx(od opDef, s Step, i int) bool {
	for _, w := range od.writes {
		switch w {
		case 'z':
			if s.Z == i {
				return true
			}
		case 'r':
			if s.R == i {
				return true
			}
		case 'y':
			if s.Y == i {
				return true
			}
		}
	}
	return false
}

func straddles(v *big.Int) bool {
	b := v.BitLen()
	return (b >= 62 && b <= 66) || (b >= 126 && b <= 130)
}

func TestC16(t *testing.T)       { core.Run(t, "C16", genCase, check) }
func TestC16Replay(t *testing.T) { core.Replay(t, "C16", check) }

func scanVerb(n int64) string {
	return []string{"%d", "%v", "%x", "%o", "%b", "%s", "%X"}[int(uint64(n)%7)]
}
