// C07: every finite result fits the context it was computed in. Oracle: the invariant
// itself (digits <= P, adjusted exponent <= Emax, exponent >= Etiny for non-zero values,
// non-negative coefficient, valid form, QuoInteger exponent 0), checked on every result.
package c07

import (
	"fmt"
	"strings"
	"testing"

	"github.com/cockroachdb/apd/v3"
	"pgregory.net/rapid"
	"verif/harness/arith"
	"verif/harness/core"
	"verif/harness/gen"
	"verif/harness/ref"
)

var cheap = []string{"add", "sub", "mul", "quo", "abs", "neg", "round", "rem", "reduce", "sqrt", "quantize", "quointeger", "setstring", "quo", "quo"}
var costly = []string{"cbrt", "exp", "ln", "log10", "pow"}

var genCheap = arith.Gen(cheap, 400, false)
var genCostly = arith.Gen(costly, 30, false)

func genCase(t *rapid.T) arith.Case {
	var c arith.Case
	if gen.Pick(t, 5, "costly") == 0 {
		c = genCostly(t)
	} else {
		c = genCheap(t)
	}
	// Finite results also come from special operands (x rem Inf, x**Inf, x/Inf ...) and from
	// operands that are a power of ten written with more digits than the precision (1.000000,
	// 100.000): paths that return a constant or a copy of an operand.
	switch gen.Pick(t, 12, "shape") {
	case 0:
		c.Y = gen.Special(t, "ysp")
	case 1:
		c.X = gen.Special(t, "xsp")
	case 2, 3:
		k := rapid.IntRange(0, 2*int(c.Ctx.P)+5).Draw(t, "onezeros")
		m := rapid.IntRange(-3, 3).Draw(t, "onemag")
		if gen.Pick(t, 2, "isone") == 0 {
			m = 0
		}
		one := core.Dec{Coeff: "1" + strings.Repeat("0", k), Exp: int32(m - k)}
		if gen.Pick(t, 3, "which") == 0 {
			c.Y = one
		} else {
			c.X = one
			if gen.Pick(t, 3, "yinf") == 0 {
				c.Y = core.Dec{Form: int8(apd.Infinite), Neg: rapid.Bool().Draw(t, "yinfneg")}
			}
		}
	}
	return c
}

func check(c arith.Case, st *core.Stats) error {
	var o arith.Out
	core.Guard(st, func() { o = arith.Exec(c) })
	st.Class("op:" + c.Op)
	if o.Err != nil {
		st.Class("error-return")
		return nil // errors are C01/C03/C04's business; no result to judge
	}
	d := o.D
	if err := core.Valid(d); err != nil {
		return fmt.Errorf("%v: %v (result %s)", c, err, core.Show(d))
	}
	if d.Form != apd.Finite {
		st.Class("non-finite-result")
		return nil
	}
	p := int64(c.Ctx.P)
	etiny := int64(c.Ctx.Emin) - p + 1
	nd := ref.NDigits(d.Coeff.MathBigInt())
	adj := int64(d.Exponent) + nd - 1
	zero := d.Coeff.MathBigInt().Sign() == 0
	// non-trivial: rounding or clamping had to act on the unrounded result
	switch {
	case o.Res&(apd.Rounded|apd.Inexact) != 0 && nd == p:
		st.NonTrivial("rounded-to-full-precision")
	case o.Res.Subnormal() || (!zero && int64(d.Exponent) == etiny):
		st.NonTrivial("subnormal-or-at-etiny")
	case o.Res.Clamped():
		st.NonTrivial("clamped")
	case o.Res&(apd.Rounded|apd.Inexact) != 0:
		st.NonTrivial("rounded")
	case adj == int64(c.Ctx.Emax):
		st.NonTrivial("at-emax")
	}
	if e := arith.Reference(c); e.Defined && e.R.Carry {
		st.Class("carry-on-round-up:" + c.Op)
	}
	if p > 0 && nd > p {
		if c.Op == "log10" && st.Tolerate("D26") {
			return nil
		}
		return fmt.Errorf("%v: result %s has %d coefficient digits, Precision is %d (flags %s)", c, core.Show(d), nd, p, core.FlagStr(o.Res))
	}
	if adj > int64(c.Ctx.Emax) {
		return fmt.Errorf("%v: result %s has adjusted exponent %d above MaxExponent %d (flags %s)", c, core.Show(d), adj, c.Ctx.Emax, core.FlagStr(o.Res))
	}
	if !zero && int64(d.Exponent) < etiny {
		return fmt.Errorf("%v: non-zero result %s has exponent %d below Etiny %d (flags %s)", c, core.Show(d), d.Exponent, etiny, core.FlagStr(o.Res))
	}
	if c.Op == "quointeger" && d.Exponent != 0 {
		return fmt.Errorf("%v: QuoInteger result %s has exponent %d, want 0", c, core.Show(d), d.Exponent)
	}
	return nil
}

func TestC07(t *testing.T)       { core.Run(t, "C07", genCase, check) }
func TestC07Replay(t *testing.T) { core.Replay(t, "C07", check) }
