// C19: Reduce and NumDigits are exact. Oracle: NumDigits = length of the decimal text of
// |b|; Reduce = operand rounded by the reference, trailing zeros stripped, count = zeros
// actually removed, independent of the destination.
package c19

import (
	"fmt"
	"math/big"
	"strings"
	"testing"

	"github.com/cockroachdb/apd/v3"
	"pgregory.net/rapid"
	"verif/harness/arith"
	"verif/harness/core"
	"verif/harness/gen"
	"verif/harness/ref"
)

type Case struct {
	Kind  string   `json:"kind"` // numdigits | ctxreduce | decreduce
	B     string   `json:"b,omitempty"`
	Ctx   core.Ctx `json:"ctx"`
	X     core.Dec `json:"x"`
	Dirty core.Dec `json:"dirty"` // previous contents of the destination
	Alias bool     `json:"alias"` // d.Reduce(d)
}

func enumerated() []Case {
	var out []Case
	add := func(v *big.Int) {
		out = append(out, Case{Kind: "numdigits", B: v.String()}, Case{Kind: "numdigits", B: new(big.Int).Neg(v).String()})
	}
	one := big.NewInt(1)
	for k := int64(0); k <= 200; k++ {
		p := ref.Pow10(k)
		add(new(big.Int).Sub(p, one))
		add(p)
		add(new(big.Int).Add(p, one))
	}
	// powers of ten and their neighbours one and two machine words away, evaluated one after
	// the other: from 10^64 on they share their low word (zero), and their high word and bit
	// length with it, so anything remembered about "the last large value" under such a key
	// answers for the wrong number
	w64 := new(big.Int).Lsh(one, 64)
	w128 := new(big.Int).Lsh(one, 128)
	for k := int64(64); k <= 160; k += 3 {
		p := ref.Pow10(k)
		add(new(big.Int).Sub(p, w64))
		add(p)
		add(new(big.Int).Add(p, w64))
		if k > 130 {
			add(new(big.Int).Sub(p, w128))
			add(p)
		}
	}
	for b := uint(0); b <= 200; b++ {
		p := new(big.Int).Lsh(one, b)
		add(new(big.Int).Sub(p, one))
		add(p)
	}
	// Beyond the table NumDigits estimates the digit count from the bit length with a
	// floating-point log2(10). The estimate is most fragile where digits*log2(10) is
	// closest to an integer: the convergents and semiconvergents of log10(2) (and small
	// multiples of them). 10^k-1, 10^k and 10^k+1 are probed at each such k.
	hard := []int64{146, 205, 351, 497, 643, 789, 1432, 2075, 2718, 3361, 4004, 4647, 8651, 12655, 21306, 33961, 55267, 76573, 97879}
	seen := map[int64]bool{}
	for _, h := range hard {
		for m := int64(1); m <= 3; m++ {
			for _, dk := range []int64{-1, 0, 1} {
				k := h*m + dk
				if k > 100000 || seen[k] {
					continue
				}
				seen[k] = true
				p := ref.Pow10(k)
				add(new(big.Int).Sub(p, one))
				add(p)
				add(new(big.Int).Add(p, one))
			}
		}
	}
	return out
}

func genCase(t *rapid.T) Case {
	var c Case
	switch gen.Pick(t, 5, "kind") {
	case 0:
		c.Kind = "numdigits"
		var v *big.Int
		switch gen.Pick(t, 4, "nk") {
		case 0: // around a power of two
			v = new(big.Int).Lsh(big.NewInt(1), uint(rapid.IntRange(0, 300).Draw(t, "bits")))
			v.Add(v, big.NewInt(int64(rapid.IntRange(-2, 2).Draw(t, "d"))))
		case 1: // around a power of ten
			v = new(big.Int).Set(ref.Pow10(int64(rapid.IntRange(0, 400).Draw(t, "k"))))
			v.Add(v, big.NewInt(int64(rapid.IntRange(-2, 2).Draw(t, "d"))))
		case 2: // multi-thousand-bit
			v, _ = new(big.Int).SetString(gen.DigitsN(t, rapid.IntRange(100, 1600).Draw(t, "len"), gen.Pick(t, 10, "shape"), "b"), 10)
		default:
			v, _ = new(big.Int).SetString(gen.Digits(t, 60, "b"), 10)
		}
		if rapid.Bool().Draw(t, "neg") {
			v.Neg(v)
		}
		c.B = v.String()
		return c
	case 1, 2:
		c.Kind = "decreduce"
	default:
		c.Kind = "ctxreduce"
	}
	c.Ctx = gen.Context(t, 400)
	c.X = arith.ReduceOperand(t, c.Ctx)
	if c.Kind == "ctxreduce" && gen.Pick(t, 8, "p0") == 1 {
		c.Ctx.P = 0 // rounding disabled: only the exponent limits apply (as in BaseContext)
	}
	if c.Kind == "decreduce" && gen.Pick(t, 8, "special") == 0 {
		c.X = gen.Special(t, "xs")
	}
	c.Dirty = gen.Any(t, c.Ctx, "dirty")
	if gen.Pick(t, 3, "dirtybig") == 0 {
		c.Dirty.Coeff = gen.DigitsN(t, rapid.IntRange(1, 60).Draw(t, "dl"), gen.Pick(t, 10, "ds"), "dirty")
	}
	c.Alias = gen.Pick(t, 4, "alias") == 0
	return c
}

func trailingZeros(b *big.Int) int {
	s := b.String()
	return len(s) - len(strings.TrimRight(s, "0"))
}

func check(c Case, st *core.Stats) error {
	switch c.Kind {
	case "numdigits":
		v, _ := new(big.Int).SetString(c.B, 10)
		var b apd.BigInt
		b.SetMathBigInt(v)
		want := int64(len(new(big.Int).Abs(v).String()))
		var got int64
		core.Guard(st, func() { got = apd.NumDigits(&b) })
		st.Class("numdigits")
		if v.Sign() < 0 {
			st.NonTrivial("negative")
			if v.BitLen() > 128 {
				st.Class("negative-wider-than-128-bits")
			}
		} else if v.BitLen() > 64 {
			st.NonTrivial("wider-than-64-bits")
		}
		if got != want {
			return fmt.Errorf("NumDigits(%s) = %d, want %d", c.B, got, want)
		}
		if b.MathBigInt().Cmp(v) != 0 {
			return fmt.Errorf("NumDigits(%s) modified its argument to %s", c.B, b.String())
		}
		return nil
	case "decreduce":
		x := c.X.Apd()
		d := c.Dirty.Apd()
		if c.Alias {
			d = x
		}
		var n int
		core.Guard(st, func() { _, n = d.Reduce(x) })
		st.Class("decreduce")
		if c.X.Form != 0 {
			want := c.X.Apd()
			if d.Form != want.Form || d.Negative != want.Negative || n != 0 {
				return fmt.Errorf("Decimal.Reduce(%v) = %s, n=%d; want the operand unchanged and n=0", c.X, core.Show(d), n)
			}
			return nil
		}
		xb := c.X.Big()
		if xb.Sign() == 0 {
			st.NonTrivial("zero")
			if d.Coeff.Sign() != 0 || d.Exponent != 0 || d.Form != apd.Finite || n != 0 {
				return fmt.Errorf("Decimal.Reduce(%v) into %v = %s n=%d; want 0 with exponent 0 and no zeros removed", c.X, c.Dirty, core.Show(d), n)
			}
			return nil
		}
		tz := trailingZeros(xb)
		if tz > 0 {
			st.NonTrivial("zeros-removed")
		}
		if tz > 256 {
			st.Class("more-than-256-trailing-zeros")
		}
		wantC := new(big.Int).Quo(xb, ref.Pow10(int64(tz)))
		if d.Form != apd.Finite || d.Negative != c.X.Neg || d.Coeff.MathBigInt().Cmp(wantC) != 0 || int64(d.Exponent) != int64(c.X.Exp)+int64(tz) || n != tz {
			return fmt.Errorf("Decimal.Reduce(%v) into %v (alias=%v) = %s n=%d; want coeff %s exp %d n=%d", c.X, c.Dirty, c.Alias, core.Show(d), n, wantC, int64(c.X.Exp)+int64(tz), tz)
		}
		return nil
	}
	// Context.Reduce: trailing zeros of the operand are stripped, the stripped value is
	// rounded to the context, and zeros produced by the rounding are stripped as well; the
	// count is the total number of zeros stripped (digits discarded by the rounding are
	// not "zeros removed").
	xb := c.X.Big()
	n1 := 0
	stripped := c.X
	if c.X.Form == 0 && xb.Sign() != 0 {
		n1 = trailingZeros(xb)
		stripped.Coeff = new(big.Int).Quo(xb, ref.Pow10(int64(n1))).String()
		stripped.Exp = c.X.Exp + int32(n1)
	}
	ac := arith.Case{Op: "reduce", Ctx: c.Ctx, X: stripped, Y: core.Dec{Coeff: "0"}}
	e := arith.Reference(ac)
	x := c.X.Apd()
	d := c.Dirty.Apd()
	if c.Alias {
		d = x
	}
	var o arith.Out
	core.Guard(st, func() { o = arith.Call("reduce", c.Ctx.Apd(), d, x, nil, 0, "") })
	st.Class("ctxreduce")
	if o.Err != nil {
		if e.Limit || arith.NearLimit(arith.Case{Op: "reduce", Ctx: c.Ctx, X: c.X}, nil) {
			return nil
		}
		return fmt.Errorf("Context.Reduce %v: unexpected error %v", c, o.Err)
	}
	// the form of the result is prescribed whatever the value is (also where the model does
	// not define the value, e.g. rounding disabled and the operand outside the exponent range)
	if d.Form == apd.Finite {
		if d.Coeff.Sign() == 0 && d.Exponent != 0 {
			return fmt.Errorf("Context.Reduce(%v) ctx=%v = %s: a zero result must have exponent 0", c.X, c.Ctx, core.Show(d))
		}
		if d.Coeff.Sign() != 0 && trailingZeros(d.Coeff.MathBigInt()) != 0 {
			return fmt.Errorf("Context.Reduce(%v) ctx=%v = %s: coefficient still has trailing zeros", c.X, c.Ctx, core.Show(d))
		}
	}
	if !e.Defined {
		st.Class("ctxreduce-value-not-modelled")
		return nil
	}
	if !ref.SameValue(d, e.R) {
		return fmt.Errorf("Context.Reduce(%v) ctx=%v = %s, want value %v", c.X, c.Ctx, core.Show(d), e.R)
	}
	if d.Form != apd.Finite {
		return nil
	}
	if e.R.Coeff.Sign() == 0 {
		st.NonTrivial("zero")
		if d.Exponent != 0 || o.N != n1 {
			return fmt.Errorf("Context.Reduce(%v) ctx=%v = %s n=%d; a zero must become 0 with exponent 0 (sign kept), n=%d", c.X, c.Ctx, core.Show(d), o.N, n1)
		}
		return nil
	}
	n2 := trailingZeros(e.R.Coeff)
	if e.R.Carry {
		n2-- // 99..9 -> 100..0 is renormalised to Precision digits by the rounding itself
	}
	if n2 > 0 {
		st.NonTrivial("zeros-produced-by-rounding")
	} else if n1 > 0 {
		st.NonTrivial("zeros-removed")
	}
	got := d.Coeff.MathBigInt()
	if trailingZeros(got) != 0 {
		return fmt.Errorf("Context.Reduce(%v) ctx=%v = %s: coefficient still has trailing zeros", c.X, c.Ctx, core.Show(d))
	}
	if o.N != n1+n2 {
		return fmt.Errorf("Context.Reduce(%v) ctx=%v into %v = %s reports %d zeros removed, want %d (%d of the operand + %d produced by rounding)", c.X, c.Ctx, c.Dirty, core.Show(d), o.N, n1+n2, n1, n2)
	}
	return nil
}

func TestC19(t *testing.T)       { core.RunPre(t, "C19", enumerated(), genCase, checkDiff) }
func TestC19Replay(t *testing.T) { core.Replay(t, "C19", checkDiff) }

// checkDiff: Context.Reduce is also compared with normalize of Python's decimal module.
func checkDiff(c Case, st *core.Stats) error {
	if err := check(c, st); err != nil {
		return err
	}
	if c.Kind != "ctxreduce" {
		return nil
	}
	return arith.DiffExec(arith.Case{Op: "reduce", Ctx: c.Ctx, X: c.X, Y: core.Dec{Coeff: "0"}}, arith.DiffOpts{Value: true, Flags: true}, 1, st)
}
