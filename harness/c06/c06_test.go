// C06: results depend only on operands and context; inputs are never modified. Oracle:
// (i) the same call into a fresh, a dirty and a history-produced destination gives
// identical results; (ii) operands, (iii) the Context and (iv) the package's shared
// tables and constants (verif-tagged snapshot) are bit-for-bit unchanged; (v) a fixed probe
// set answers as it did at process start after any history of operations.
package c06

import (
	"fmt"
	"math/big"
	"reflect"
	"testing"

	"github.com/cockroachdb/apd/v3"
	"pgregory.net/rapid"
	"verif/harness/arith"
	"verif/harness/core"
	"verif/harness/gen"
	"verif/harness/ref"
)

type Case struct {
	History []arith.Case `json:"history"`
	Main    arith.Case   `json:"main"`
	Dirty   core.Dec     `json:"dirty"`
}

var cheap = []string{"add", "sub", "mul", "quo", "quointeger", "rem", "cmp", "abs", "neg", "round", "quantize", "rtie", "rtiv", "ceil", "floor", "reduce", "sqrt", "setstring",
	"dec.set", "dec.neg", "dec.abs", "dec.reduce", "dec.modf"}
var costly = []string{"cbrt", "exp", "ln", "log10", "pow"}

func genOp(t *rapid.T) arith.Case {
	var c arith.Case
	op := ""
	if gen.Pick(t, 6, "costly") == 0 {
		op = costly[gen.Pick(t, len(costly), "op")]
		c.Ctx = gen.Context(t, 20)
	} else {
		op = cheap[gen.Pick(t, len(cheap), "op")]
		c.Ctx = gen.Context(t, 200)
	}
	c.Op = op
	switch op {
	case "dec.modf":
		c.Op = "ceil"
	case "dec.set", "dec.neg", "dec.abs":
		c.Op = "abs"
	case "dec.reduce":
		c.Op = "reduce"
	case "cmp":
		c.Op = "add"
	}
	arith.FillOperands(t, &c)
	c.Op = op
	if arith.P0Op(op) && gen.Pick(t, 8, "p0") == 0 {
		c.Ctx.P = 0 // rounding disabled (as in BaseContext)
	}
	if op == "cmp" && c.X.Form == 0 {
		// same value region in another representation: Cmp's rescaling path
		j := rapid.IntRange(1, 160).Draw(t, "pad")
		if gen.Pick(t, 2, "long") == 0 {
			c.X.Coeff = gen.DigitsN(t, rapid.IntRange(39, 70).Draw(t, "xl"), gen.Pick(t, 10, "xs"), "xlong")
		}
		v := c.X.Big()
		v.Mul(v, ref.Pow10(int64(j)))
		v.Add(v, big.NewInt(int64(rapid.IntRange(-1, 1).Draw(t, "d"))))
		if v.Sign() < 0 {
			v.SetInt64(0)
		}
		c.Y = core.Dec{Coeff: v.String(), Exp: c.X.Exp - int32(j), Neg: c.X.Neg}
		if gen.Pick(t, 2, "swap") == 0 {
			c.X, c.Y = c.Y, c.X
		}
	}
	if gen.Pick(t, 10, "spx") == 0 {
		c.X = gen.Any(t, c.Ctx, "sx")
		if c.X.Form != 0 && gen.Pick(t, 3, "spheap") == 0 {
			// a NaN or infinity whose (ignored) coefficient field is wider than 128 bits, as the
			// exported fields allow and as an overflowed 39-digit value leaves behind: the
			// copy of it that an operation returns must not share its storage
			c.X.Coeff = gen.DigitsN(t, rapid.IntRange(39, 60).Draw(t, "sphl"), gen.Pick(t, 10, "sphs"), "sph")
		}
	}
	if gen.Pick(t, 25, "atlimit") == 0 && c.X.Form == 0 {
		// operands at the package exponent limits: calls that fail there must not leave
		// anything behind that later calls can see
		nd := int32(len(c.X.Coeff))
		if rapid.Bool().Draw(t, "limtop") {
			c.X.Exp = gen.Limit - nd + 1 - int32(rapid.IntRange(0, 30).Draw(t, "lo"))
		} else {
			c.X.Exp = -gen.Limit + int32(rapid.IntRange(0, 30).Draw(t, "lo"))
		}
	}
	if arith.Binary(op) && gen.Pick(t, 12, "spy") == 0 {
		c.Y = gen.Special(t, "sy")
	}
	if gen.Pick(t, 12, "heap") == 0 && c.X.Form == 0 && op != "exp" && op != "pow" && op != "ln" && op != "log10" && op != "cbrt" {
		c.X.Coeff = gen.DigitsN(t, rapid.IntRange(39, 80).Draw(t, "hl"), gen.Pick(t, 10, "hs"), "heapc")
	}
	return c
}

func genDirty(t *rapid.T) core.Dec {
	ctx := core.Ctx{P: 9, Emax: 50, Emin: -50}
	switch gen.Pick(t, 8, "dk") {
	case 0:
		return core.Dec{Form: 3, Coeff: "0"}
	case 1:
		return core.Dec{Form: 2, Coeff: "0", Neg: true}
	case 2:
		return core.Dec{Form: 1, Coeff: "0", Neg: rapid.Bool().Draw(t, "dn")}
	case 3: // 3000-bit heap coefficient
		return core.Dec{Coeff: gen.DigitsN(t, 900, gen.Pick(t, 10, "ds"), "dbig"), Exp: int32(rapid.IntRange(-50, 50).Draw(t, "de")), Neg: true}
	case 4: // junk exponent
		return core.Dec{Coeff: "7", Exp: int32(rapid.IntRange(-99999, 99999).Draw(t, "de")), Neg: rapid.Bool().Draw(t, "dn")}
	case 5:
		return gen.Special(t, "dsp")
	default:
		return gen.Any(t, ctx, "dirty")
	}
}

func genCase(t *rapid.T) Case {
	var c Case
	n := rapid.IntRange(0, 10).Draw(t, "hist")
	for i := 0; i < n; i++ {
		c.History = append(c.History, genOp(t))
	}
	c.Main = genOp(t)
	c.Dirty = genDirty(t)
	// Near-duplicates of the main call in the history: the same operation on the same operands
	// with one context field (or one operand detail) changed. Anything remembered between
	// calls under an incomplete key - a memo, a cache, a reused scratch value - shows only then.
	if gen.Pick(t, 2, "variants") == 0 {
		k := 1 + gen.Pick(t, 3, "nvar")
		for i := 0; i < k; i++ {
			v := c.Main
			switch gen.Pick(t, 8, "vfield") {
			case 0:
				v.Ctx.Emax = int32(rapid.IntRange(0, 400).Draw(t, "vemax"))
			case 1:
				v.Ctx.Emin = -int32(rapid.IntRange(0, 400).Draw(t, "vemin"))
			case 2:
				v.Ctx.Emax, v.Ctx.Emin = gen.Limit, -gen.Limit
			case 3:
				v.Ctx.P = uint32(1 + gen.Pick(t, 40, "vp"))
			case 4:
				v.Ctx.Rounding = []string{"down", "half_up", "half_even", "ceiling", "floor", "half_down", "up", "05up"}[gen.Pick(t, 8, "vmode")]
			case 5:
				v.Ctx.Traps = rapid.Uint32Range(0, 1<<12-1).Draw(t, "vtraps")
			case 6:
				v.X.Neg = !v.X.Neg
			default:
				v.X.Exp += int32(rapid.IntRange(-3, 3).Draw(t, "vxe"))
				if v.X.Exp > gen.Limit-int32(len(v.X.Coeff)) || v.X.Exp < -gen.Limit {
					v.X.Exp = c.Main.X.Exp
				}
			}
			pos := rapid.IntRange(0, len(c.History)).Draw(t, "vpos")
			c.History = append(c.History[:pos], append([]arith.Case{v}, c.History[pos:]...)...)
		}
	}
	return c
}

// run executes one op with explicit objects, including the Decimal methods.
func run(c arith.Case, ctx *apd.Context, d, x, y *apd.Decimal) (o arith.Out, extra string) {
	switch c.Op {
	case "dec.set":
		d.Set(x)
		return arith.Out{D: d}, ""
	case "dec.neg":
		d.Neg(x)
		return arith.Out{D: d}, ""
	case "dec.abs":
		d.Abs(x)
		return arith.Out{D: d}, ""
	case "dec.reduce":
		_, n := d.Reduce(x)
		return arith.Out{D: d, N: n}, ""
	case "dec.modf":
		var f apd.Decimal
		f.Set(d) // the second output starts from the same pre-state
		x.Modf(d, &f)
		return arith.Out{D: d}, core.Show(&f)
	}
	return arith.Call(c.Op, ctx, d, x, y, c.QExp, c.Str), ""
}

func snap(d *apd.Decimal) string {
	return fmt.Sprintf("%d/%v/%d/%s", d.Form, d.Negative, d.Exponent, d.Coeff.VerifReprString())
}

func errStr(e error) string {
	if e == nil {
		return "<nil>"
	}
	return e.Error()
}

func showOut(o arith.Out, extra string) string {
	return fmt.Sprintf("%s flags=%s err=%s n=%d %s", core.Show(o.D), core.FlagStr(o.Res), errStr(o.Err), o.N, extra)
}

// probes: a fixed set of calls whose answers are recorded at process start.
func probes() []string {
	var out []string
	p := func(op, ctx, x, y string, prec uint32) {
		c := arith.Case{Op: op, Ctx: core.Ctx{P: prec, Emax: 999, Emin: -999, Rounding: ctx}}
		dx, _, _ := apd.NewFromString(x)
		dy, _, _ := apd.NewFromString(y)
		o := arith.Call(op, c.Ctx.Apd(), new(apd.Decimal), dx, dy, 0, "")
		out = append(out, fmt.Sprintf("%s(%s,%s)@%d=%s %s %s", op, x, y, prec, core.Show(o.D), core.FlagStr(o.Res), errStr(o.Err)))
	}
	p("ln", "half_even", "10", "0", 30)
	p("ln", "half_even", "2.5", "0", 9)
	p("log10", "half_even", "7", "0", 20)
	p("exp", "half_up", "1", "0", 25)
	p("pow", "half_even", "2", "0.5", 16)
	p("sqrt", "half_even", "2", "0", 40)
	p("cbrt", "half_even", "2", "0", 12)
	p("quo", "half_even", "1", "3", 150)
	p("mul", "half_even", "1E+129", "1E+130", 5)
	p("add", "floor", "1E-130", "-1", 7)
	p("quantize", "up", "1.0000000000000000000000000000000000000001", "0", 60)
	p("round", "05up", "123456789012345678901234567890123456789012345", "0", 3)
	p("reduce", "half_up", "1200000000000000000000000000000000000000000", "0", 50)
	for _, s := range []string{"9", "10", "99999999999999999999", "100000000000000000000", "340282366920938463463374607431768211455", "340282366920938463463374607431768211456"} {
		var b apd.BigInt
		b.SetString(s, 10)
		out = append(out, fmt.Sprintf("NumDigits(%s)=%d", s, apd.NumDigits(&b)))
		b.Neg(&b)
		out = append(out, fmt.Sprintf("NumDigits(-%s)=%d", s, apd.NumDigits(&b)))
	}
	return out
}

var (
	baseGlobals = apd.VerifGlobals()
	baseProbes  = probes()
)

func check(c Case, st *core.Stats) error {
	// accumulator: destination reused across the history (so its state is history-produced)
	acc := new(apd.Decimal)
	var failed error
	// the main call once before the history: what it returns must not change afterwards
	var before arith.Out
	var beforeX string
	core.Guard(st, func() { before, beforeX = run(c.Main, c.Main.Ctx.Apd(), new(apd.Decimal), c.Main.X.Apd(), c.Main.Y.Apd()) })
	core.Guard(st, func() {
		for _, h := range c.History {
			run(h, h.Ctx.Apd(), acc, h.X.Apd(), h.Y.Apd())
		}
	})
	m := c.Main
	st.Class("op:" + m.Op)
	var want, gotDirty, gotAcc arith.Out
	var wantX, dirtyX, accX string
	x, y := m.X.Apd(), m.Y.Apd()
	ctx := m.Ctx.Apd()
	ctxBefore := *ctx
	xs, ys := snap(x), snap(y)
	core.Guard(st, func() {
		want, wantX = run(m, m.Ctx.Apd(), new(apd.Decimal), m.X.Apd(), m.Y.Apd())
		gotDirty, dirtyX = run(m, ctx, c.Dirty.Apd(), x, y)
		gotAcc, accX = run(m, ctx, acc, x, y)
	})
	if len(c.History) >= 2 {
		st.NonTrivial("history>=2")
	} else if !(c.Dirty.Form == 0 && c.Dirty.Coeff == "0" && c.Dirty.Exp == 0 && !c.Dirty.Neg) {
		st.NonTrivial("dirty-destination")
	}
	st.Class(fmt.Sprintf("dirty-form-%d", c.Dirty.Form))
	if len(c.Dirty.Coeff) > 800 {
		st.Class("dirty-3000-bit-coefficient")
	}
	if m.X.Form == 0 && int64(-m.X.Exp) > int64(len(m.X.Coeff)) && (m.Op == "ceil" || m.Op == "floor" || m.Op == "dec.modf") {
		st.Class("modf-path-|x|<0.1")
	}
	if m.Op == "cmp" && len(m.X.Coeff)+len(m.Y.Coeff) > 80 {
		st.Class("cmp-rescale-heap")
	}
	sysErr := func(o arith.Out) bool { return o.Err != nil && (o.Res&(apd.SystemOverflow|apd.SystemUnderflow) != 0 || o.Res == 0) }
	eq := func(a, b arith.Out, ea, eb string) bool {
		if errStr(a.Err) != errStr(b.Err) || a.Res != b.Res || a.N != b.N {
			return false
		}
		if sysErr(a) || (a.Err != nil && apd.Condition(m.Ctx.Traps) == 0) {
			// no result is delivered with a system / precision error, nor with an error that
			// an internal step of a composite function raised under an empty trap set
			return true
		}
		return core.SameFields(a.D, b.D) && ea == eb
	}
	if !eq(before, want, beforeX, wantX) {
		return fmt.Errorf("%v: before a history of %d operations: %s; after it: %s", m, len(c.History), showOut(before, beforeX), showOut(want, wantX))
	}
	if !eq(want, gotDirty, wantX, dirtyX) {
		return fmt.Errorf("%v: into a fresh destination: %s; into destination %v: %s", m, showOut(want, wantX), c.Dirty, showOut(gotDirty, dirtyX))
	}
	if !eq(want, gotAcc, wantX, accX) {
		return fmt.Errorf("%v: into a fresh destination: %s; into the destination left by %d earlier operations: %s", m, showOut(want, wantX), len(c.History), showOut(gotAcc, accX))
	}
	// a destination whose previous contents are the operand itself (d == x)
	if m.Op != "cmp" && m.Op != "dec.modf" && m.Op != "setstring" {
		var gotAlias arith.Out
		var aliasX string
		xa := m.X.Apd()
		core.Guard(st, func() { gotAlias, aliasX = run(m, m.Ctx.Apd(), xa, xa, m.Y.Apd()) })
		if !eq(want, gotAlias, wantX, aliasX) {
			return fmt.Errorf("%v: into a fresh destination: %s; into the operand itself: %s", m, showOut(want, wantX), showOut(gotAlias, aliasX))
		}
	}
	// The result owns its storage: using it as the destination of later in-place arithmetic
	// must not reach the operands (a shallow copy shares the coefficient's words).
	if r := gotDirty.D; r != nil && r != x && r != y {
		core.Guard(st, func() {
			r.Coeff.Add(&r.Coeff, apd.NewBigInt(1))
			r.Coeff.Sub(&r.Coeff, apd.NewBigInt(3))
			r.Coeff.Neg(&r.Coeff)
			r.Coeff.Lsh(&r.Coeff, 1)
		})
	}
	if s := snap(x); s != xs {
		return fmt.Errorf("%v: operand x modified (by the call, or by later in-place arithmetic on its result): %s -> %s", m, xs, s)
	}
	if arith.Binary(m.Op) {
		if s := snap(y); s != ys {
			return fmt.Errorf("%v: operand y modified: %s -> %s", m, ys, s)
		}
	}
	if *ctx != ctxBefore {
		return fmt.Errorf("%v: the Context was modified: %+v -> %+v", m, ctxBefore, *ctx)
	}
	core.Guard(st, func() {
		if g := apd.VerifGlobals(); !reflect.DeepEqual(g, baseGlobals) {
			for i := range g {
				if i < len(baseGlobals) && g[i] != baseGlobals[i] {
					failed = fmt.Errorf("after %v (history of %d ops): shared package state changed: %.200s  (was %.200s)", m, len(c.History), g[i], baseGlobals[i])
					return
				}
			}
			failed = fmt.Errorf("after %v: shared package state changed", m)
			return
		}
		if p := probes(); !reflect.DeepEqual(p, baseProbes) {
			for i := range p {
				if p[i] != baseProbes[i] {
					failed = fmt.Errorf("after %v (history of %d ops): probe answers %s, at process start it answered %s", m, len(c.History), p[i], baseProbes[i])
					return
				}
			}
		}
	})
	return failed
}

func TestC06(t *testing.T)       { core.Run(t, "C06", genCase, check) }
func TestC06Replay(t *testing.T) { core.Replay(t, "C06", check) }
