// C14: String is the GDA scientific string; parsing accepts exactly its grammar; Format
// applies fmt's flags and width. Oracles: an independent to-scientific-string formatter,
// a hand-written recogniser of the numeric-string grammar, a reference composition of
// sign/padding, and fmt's own output for *big.Int on integer-valued decimals.
package c14

import (
	"fmt"
	"math/big"
	"strings"
	"testing"

	"github.com/cockroachdb/apd/v3"
	"pgregory.net/rapid"
	"verif/harness/core"
	"verif/harness/gen"
	"verif/harness/pyref"
	"verif/harness/ref"
)

type Case struct {
	Kind  string   `json:"kind"` // string | parse | format
	X     core.Dec `json:"x"`
	S     string   `json:"s"`
	Verb  string   `json:"verb"`
	Flags string   `json:"flags"`
	Width int      `json:"width"`
	Src   string   `json:"src"` // how S was produced: grammar | mutated | random
}

var shapeCtx = core.Ctx{P: 12, Emax: 400, Emin: -400}

func genDec(t *rapid.T) core.Dec {
	switch gen.Pick(t, 10, "form") {
	case 0:
		return core.Dec{Form: int8(1 + gen.Pick(t, 3, "sp")), Coeff: "0", Neg: rapid.Bool().Draw(t, "neg")}
	case 1:
		return core.Dec{Coeff: "0", Neg: rapid.Bool().Draw(t, "neg"), Exp: int32(rapid.SampledFrom([]int{-2001, -2000, -1999, -8, -7, -6, -5, -1, 0, 1, 3}).Draw(t, "ze"))}
	}
	d := core.Dec{Coeff: gen.Digits(t, 45, "c"), Neg: rapid.Bool().Draw(t, "neg")}
	if gen.Pick(t, 30, "extexp") == 0 {
		// formatting never computes a power of ten: the whole int32 exponent field is fair game
		d.Exp = []int32{2147483647, -2147483648, 2147483646, -2147483647, 2147483600, -2147483600}[gen.Pick(t, 6, "extv")]
		return d
	}
	if gen.Pick(t, 12, "long") == 0 {
		// non-zero coefficients around the -2000 cut-off that the zero exception uses, so
		// that the cut-off is seen to apply to zeros only
		d.Coeff = gen.DigitsN(t, rapid.IntRange(1985, 2015).Draw(t, "ll"), gen.Pick(t, 10, "ls"), "lc")
		d.Exp = int32(rapid.IntRange(-2025, -1975).Draw(t, "le"))
		return d
	}
	nd := int64(len(d.Coeff))
	switch gen.Pick(t, 4, "ek") {
	case 0:
		d.Exp = int32(int64(rapid.IntRange(-9, -4).Draw(t, "adj")) - nd + 1)
	case 1:
		d.Exp = int32(rapid.IntRange(-3, 3).Draw(t, "e"))
	case 2:
		d.Exp = int32(rapid.Int64Range(-gen.Limit, gen.Limit-nd+1).Draw(t, "e"))
	default:
		d.Exp = int32(rapid.IntRange(-50, 50).Draw(t, "e"))
	}
	return d
}

var alphabet = []string{"0", "1", "5", "9", "00", ".", "e", "E", "+", "-", "inf", "Inf", "INFINITY", "infinity", "nan", "NaN", "snan", "sNaN",
	"_", " ", "\x00", "x", "İ", "ı", "K", "ſ", "١", "１", "\t", "\n", ",", "0x", "n", "i", "in", "na", "s", "ity", "1e", "e5", ".5", "5."}

var words = []string{"null", "NULL", "Null", "nil", "<nil>", "none", "None", "undefined", "true", "false", "NaN()", "nan(1)", "+", "-", ".", "e", "E1", "-.", "+.e1",
	"\"1\"", "'1'", "1f", "1d", "1L", "0x10", "0b1", "0o7", "1_000", "1,000", "1 000", " 1", "1 ", "1\n", "\ufeff1", "１", "∞", "-∞", "+Inf", "+infinity", "infinit", "infinityy", "in", "na", "snaN1x", "qnan", "1e", "1e+", "1e-", "1ee1", "1e1e1", "1.2.3", "..1", "1..", "--1", "+-1", "-+1", "++1"}

func genExponent(t *rapid.T) string {
	var e string
	switch gen.Pick(t, 6, "ek") {
	case 0:
		// package limits and the integer widths an exponent parser may overflow
		e = rapid.SampledFrom([]string{"99999", "100000", "100001", "99998", "2147483647", "2147483648", "4294967295", "4294967296", "4294967301",
			"9223372036854775807", "9223372036854775808", "18446744073709551615", "18446744073709551616", "18446744073709551621", "18446744073709451616",
			"36893488147419103232", "36893488147419103237", "99999999999999999999", "340282366920938463463374607431768211456", "340282366920938463463374607431768211461",
			"0", "00", "007", "000000000000000000000000000000005"}).Draw(t, "ebig")
	case 1:
		e = fmt.Sprint(rapid.IntRange(99990, 100010).Draw(t, "enear"))
	default:
		e = fmt.Sprint(rapid.IntRange(0, 400).Draw(t, "e"))
	}
	switch gen.Pick(t, 3, "esign") {
	case 0:
		e = "-" + e
	case 1:
		e = "+" + e
	}
	return e
}

// grammatical builds a string of the numeric-string grammar.
func grammatical(t *rapid.T) string {
	var b strings.Builder
	switch gen.Pick(t, 3, "sign") {
	case 0:
		b.WriteByte('-')
	case 1:
		b.WriteByte('+')
	}
	switch gen.Pick(t, 8, "alt") {
	case 0:
		b.WriteString(rapid.SampledFrom([]string{"inf", "Inf", "INF", "infinity", "Infinity", "INFINITY", "iNfInItY"}).Draw(t, "inf"))
		return b.String()
	case 1:
		b.WriteString(rapid.SampledFrom([]string{"nan", "NaN", "NAN", "snan", "sNaN", "SNAN"}).Draw(t, "nan"))
		if rapid.Bool().Draw(t, "payload") {
			b.WriteString(gen.Digits(t, 30, "pay"))
		}
		return b.String()
	}
	if gen.Pick(t, 700, "hugemant") == 1 {
		// a mantissa of about 100000 digits whose value is nevertheless well inside the
		// limits: the point (or a negative exponent) compensates for the length
		il := []int{0, 1, 2, 50000, 100001}[gen.Pick(t, 5, "hil")]
		fl := 100000 - il + rapid.IntRange(-2, 2).Draw(t, "hfl")
		if gen.Pick(t, 3, "hfull") == 0 {
			fl = 100000 + rapid.IntRange(-2, 2).Draw(t, "hfl2")
		}
		if fl < 0 {
			fl = 0
		}
		lead := "1"
		if gen.Pick(t, 3, "hlead0") == 0 {
			lead = "0"
		}
		if gen.Pick(t, 5, "hzeros") == 0 {
			// more than 200000 characters, almost all of them leading zeros of the fraction: the
			// value is 1E-2 or so
			z := 200001 + rapid.IntRange(-2, 3).Draw(t, "hzn")
			return "0." + strings.Repeat("0", z) + "1E" + fmt.Sprint(z-rapid.IntRange(0, 3).Draw(t, "hze"))
		}
		if il > 0 {
			b.WriteString(lead + strings.Repeat("7", il-1))
		}
		b.WriteByte('.')
		b.WriteString(strings.Repeat("3", fl))
		if w := rapid.IntRange(-3, 3).Draw(t, "hexp"); w != 0 || rapid.Bool().Draw(t, "hexp0") {
			fmt.Fprintf(&b, "E%d", w)
		}
		if il == 0 && fl == 0 {
			return "1"
		}
		return b.String()
	}
	ip := ""
	if gen.Pick(t, 6, "noint") != 0 {
		ip = strings.Repeat("0", gen.Pick(t, 4, "lead0")*gen.Pick(t, 2, "lead0b")) + gen.Digits(t, 25, "int")
	}
	fp, dot := "", false
	if gen.Pick(t, 2, "dot") == 0 {
		dot = true
		if ip == "" || gen.Pick(t, 4, "nofrac") != 0 {
			fp = gen.Digits(t, 25, "frac")
			if gen.Pick(t, 3, "fz") == 0 {
				fp = strings.Repeat("0", rapid.IntRange(1, 8).Draw(t, "fzn")) + fp
			}
		}
	}
	if ip == "" && !dot {
		ip = "7"
	}
	b.WriteString(ip)
	if dot {
		b.WriteByte('.')
		b.WriteString(fp)
	}
	if gen.Pick(t, 2, "exp") == 0 {
		b.WriteString(rapid.SampledFrom([]string{"e", "E"}).Draw(t, "ech"))
		b.WriteString(genExponent(t))
	}
	return b.String()
}

func mutate(t *rapid.T, s string) string {
	n := 1 + gen.Pick(t, 2, "nmut")
	for k := 0; k < n; k++ {
		tok := alphabet[gen.Pick(t, len(alphabet), "tok")]
		pos := 0
		if len(s) > 0 {
			pos = rapid.IntRange(0, len(s)).Draw(t, "pos")
		}
		switch gen.Pick(t, 3, "mk") {
		case 0: // insert
			s = s[:pos] + tok + s[pos:]
		case 1: // delete one byte
			if pos < len(s) {
				s = s[:pos] + s[pos+1:]
			}
		default: // replace one byte
			if pos < len(s) {
				s = s[:pos] + tok + s[pos+1:]
			}
		}
	}
	return s
}

func genCase(t *rapid.T) Case {
	var c Case
	switch gen.Pick(t, 10, "kind") {
	case 0, 1:
		c.Kind = "string"
		c.X = genDec(t)
	case 2, 3:
		c.Kind = "format"
		c.X = genDec(t)
		if gen.Pick(t, 2, "intval") == 0 && c.X.Form == 0 {
			c.X.Exp = 0
		}
		c.Verb = rapid.SampledFrom([]string{"e", "E", "f", "F", "g", "G", "s", "v", "v", "d", "x", "q"}).Draw(t, "verb")
		for _, f := range []string{"+", " ", "-", "0"} {
			if rapid.Bool().Draw(t, "flag"+f) {
				c.Flags += f
			}
		}
		c.Width = rapid.IntRange(0, 40).Draw(t, "width")
		if gen.Pick(t, 12, "wide") == 0 {
			c.Width = rapid.IntRange(41, 400).Draw(t, "widewidth")
		}
		if c.Verb == "f" || c.Verb == "F" {
			if c.X.Exp > 300 || c.X.Exp < -300 {
				c.X.Exp = int32(rapid.IntRange(-20, 20).Draw(t, "fe"))
			}
		}
	default:
		c.Kind = "parse"
		switch gen.Pick(t, 5, "src") {
		case 0, 1:
			c.Src = "grammar"
			c.S = grammatical(t)
		case 2, 3:
			c.Src = "mutated"
			c.S = mutate(t, grammatical(t))
		default:
			c.Src = "random"
			if gen.Pick(t, 4, "word") == 0 {
				// whole words that other decoders treat as "no value" or as a number, and that a
				// convenience shortcut in one entry point might let through
				c.S = words[gen.Pick(t, len(words), "wordk")]
				break
			}
			n := rapid.IntRange(0, 6).Draw(t, "ntok")
			for i := 0; i < n; i++ {
				c.S += alphabet[gen.Pick(t, len(alphabet), "rtok")]
			}
		}
	}
	return c
}

var limit = big.NewInt(gen.Limit)

func within(v *big.Int) bool { return v.CmpAbs(limit) <= 0 }

func check(c Case, st *core.Stats) error {
	st.Class(c.Kind)
	switch c.Kind {
	case "string":
		x := c.X.Apd()
		var got string
		core.Guard(st, func() { got = x.String() })
		want := ref.ToSci(c.X)
		adj := int64(c.X.Exp) + int64(len(c.X.Coeff)) - 1
		if len(c.X.Coeff) > 1900 {
			st.Class("long-coefficient-around-exponent-minus-2000")
		}
		if c.X.Form == 0 && adj >= -8 && adj <= -5 {
			st.NonTrivial("switch-over")
		} else if c.X.IsZero() {
			st.NonTrivial("zero")
		}
		if got != want {
			return fmt.Errorf("String(%v) = %q, to-scientific-string gives %q", c.X, got, want)
		}
		return nil
	case "parse":
		return checkParse(c, st)
	}
	return checkFormat(c, st)
}

// checkDiff: after the hand-written formatter / recogniser, the same case is put to Python's
// decimal module (libmpdec): str() is the specification's to-scientific-string, Decimal(text)
// its numeric-string conversion.
func checkDiff(c Case, st *core.Stats) error {
	if err := check(c, st); err != nil {
		return err
	}
	switch c.Kind {
	case "string":
		if c.X.IsZero() && c.X.Exp < 0 && c.X.Exp >= -2000 {
			return nil // apd's documented exception: such zeros are written out in plain notation
		}
		if c.X.Form >= 2 {
			return nil // payloads are not modelled
		}
		a, err := pyref.Ask("tosci", core.Ctx{P: 9, Emax: 99, Emin: -99, Rounding: "half_even"}, c.X, core.Dec{Coeff: "0"}, 0)
		if err != nil {
			core.InfraExit(err.Error())
		}
		st.Class("python-differential")
		if got := c.X.Apd().String(); got != a.S {
			return fmt.Errorf("String(%v) = %q, Python's decimal prints %q", c.X, got, a.S)
		}
	case "parse":
		// common domain: printable ASCII without the underscore (Python allows digit grouping,
		// surrounding white space and non-ASCII digits; the specification does not)
		for i := 0; i < len(c.S); i++ {
			if ch := c.S[i]; ch <= ' ' || ch >= 0x7f || ch == '_' {
				return nil
			}
		}
		p := ref.Recognise(c.S)
		if p.OK && !(within(p.Exp) && within(p.Adj) && (p.Written == nil || p.Written.IsInt64() && p.Written.Int64() >= -1<<31 && p.Written.Int64() < 1<<31)) {
			return nil // beyond apd's package limits: either outcome is acceptable there
		}
		a, err := pyref.AskRaw("parse", c.S)
		if err != nil {
			core.InfraExit(err.Error())
		}
		st.Class("python-differential")
		d, _, perr := apd.NewFromString(c.S)
		if (perr == nil) != (a.S != "<invalid>") {
			return fmt.Errorf("NewFromString(%q): err=%v, but Python's decimal gives %s", c.S, perr, a.S)
		}
		if perr == nil {
			v, err := pyref.Parse(a.S)
			if err != nil {
				core.InfraExit(err.Error())
			}
			same := int8(d.Form) == v.Form && d.Negative == v.Neg
			if same && v.Form == 0 {
				same = d.Coeff.MathBigInt().Cmp(v.Coeff) == 0 && int64(d.Exponent) == v.Exp
			}
			if !same {
				return fmt.Errorf("NewFromString(%q) = %s, Python's decimal reads %s", c.S, core.Show(d), a.S)
			}
		}
	}
	return nil
}

type entry struct {
	name string
	f    func(s string) (d *apd.Decimal, returned bool, err error)
}

var entries = []entry{
	{"NewFromString", func(s string) (*apd.Decimal, bool, error) { d, _, err := apd.NewFromString(s); return d, d != nil, err }},
	{"SetString", func(s string) (*apd.Decimal, bool, error) {
		var x apd.Decimal
		d, _, err := x.SetString(s)
		return d, d != nil, err
	}},
	{"Context.SetString", func(s string) (*apd.Decimal, bool, error) {
		var x apd.Decimal
		c := apd.BaseContext
		d, _, err := c.SetString(&x, s)
		return d, d != nil, err
	}},
	{"UnmarshalText", func(s string) (*apd.Decimal, bool, error) {
		var x apd.Decimal
		err := x.UnmarshalText([]byte(s))
		return &x, false, err
	}},
	{"Scan(string)", func(s string) (*apd.Decimal, bool, error) { var x apd.Decimal; err := x.Scan(s); return &x, false, err }},
	{"Scan([]byte)", func(s string) (*apd.Decimal, bool, error) { var x apd.Decimal; err := x.Scan([]byte(s)); return &x, false, err }},
	{"NullDecimal.Scan", func(s string) (*apd.Decimal, bool, error) {
		var x apd.NullDecimal
		err := x.Scan(s)
		return &x.Decimal, false, err
	}},
	{"NullDecimal.Scan([]byte)", func(s string) (*apd.Decimal, bool, error) {
		// a non-nil byte slice is text, the empty one included: only a nil source is NULL
		var x apd.NullDecimal
		err := x.Scan([]byte(s))
		if err == nil && !x.Valid {
			return &x.Decimal, false, nil // reported as accepted: the caller judges that against the grammar
		}
		return &x.Decimal, false, err
	}},
}

func checkParse(c Case, st *core.Stats) error {
	p := ref.Recognise(c.S)
	if c.Src != "grammar" {
		st.NonTrivial(c.Src)
	}
	// The statement decides by the value: its adjusted exponent (and, for a well-formed
	// Decimal, its exponent) within the limits. The written exponent alone says nothing
	// ("0.5E+100001" is 5E+100000); only one that does not fit 32 bits may be turned away.
	mustAccept := p.OK && within(p.Exp) && within(p.Adj) && (p.Written == nil || p.Written.IsInt64() && p.Written.Int64() >= -1<<31 && p.Written.Int64() < 1<<31)
	switch {
	case !p.OK:
		st.Class("not-in-grammar")
	case mustAccept:
		st.Class("in-grammar-within-limits")
	default:
		st.Class("in-grammar-partly-outside-limits")
	}
	if p.OK && p.Adj != nil && p.Adj.CmpAbs(big.NewInt(99990)) >= 0 && within(p.Adj) {
		st.Class("adjusted-exponent-near-limit")
	}
	for _, e := range entries {
		var d *apd.Decimal
		var returned bool
		var err error
		core.Guard(st, func() { d, returned, err = e.f(c.S) })
		if !p.OK {
			if err == nil {
				return fmt.Errorf("%s(%q) succeeded with %s, but the string is not in the numeric-string grammar", e.name, c.S, core.Show(d))
			}
			if returned {
				return fmt.Errorf("%s(%q) failed (%v) but also returned the partial value %s", e.name, c.S, err, core.Show(d))
			}
			continue
		}
		if err != nil {
			if mustAccept {
				return fmt.Errorf("%s(%q) failed: %v; the string is grammatical with exponent %s and adjusted exponent %s, within the limits", e.name, c.S, err, p.Exp, p.Adj)
			}
			if returned {
				return fmt.Errorf("%s(%q) failed (%v) but also returned the partial value %s", e.name, c.S, err, core.Show(d))
			}
			continue
		}
		// accepted: must be correct and well-formed
		if verr := core.Valid(d); verr != nil {
			return fmt.Errorf("%s(%q) = %s: %v", e.name, c.S, core.Show(d), verr)
		}
		if int8(d.Form) != p.Form || d.Negative != p.Neg {
			return fmt.Errorf("%s(%q) = %s, grammar says form %d negative %v", e.name, c.S, core.Show(d), p.Form, p.Neg)
		}
		if p.Form == 0 {
			if d.Coeff.String() != p.Coeff || big.NewInt(int64(d.Exponent)).Cmp(p.Exp) != 0 {
				return fmt.Errorf("%s(%q) = %s, grammar says coefficient %s exponent %s", e.name, c.S, core.Show(d), p.Coeff, p.Exp)
			}
			adj := int64(d.Exponent) + int64(len(d.Coeff.String())) - 1
			if d.Exponent > gen.Limit || d.Exponent < -gen.Limit || adj > gen.Limit || adj < -gen.Limit {
				return fmt.Errorf("%s(%q) = %s: exponent outside the package limits", e.name, c.S, core.Show(d))
			}
		}
	}
	return nil
}

func checkFormat(c Case, st *core.Stats) error {
	x := c.X.Apd()
	f := "%" + c.Flags
	if c.Width > 0 {
		f += fmt.Sprint(c.Width)
	}
	f += c.Verb
	var got string
	core.Guard(st, func() { got = fmt.Sprintf(f, x) })
	has := func(ch string) bool { return strings.Contains(c.Flags, ch) }
	var body string
	switch c.Verb {
	case "e", "E", "f", "g", "G":
		body = x.Text(c.Verb[0])
	case "F":
		body = x.Text('f')
	case "s", "v":
		body = ref.ToSci(c.X)
	default:
		want := fmt.Sprintf("%%!%s(*apd.Decimal=%s)", c.Verb, ref.ToSci(c.X))
		if got != want {
			return fmt.Errorf("Sprintf(%q, %v) = %q, want %q", f, c.X, got, want)
		}
		return nil
	}
	sign := ""
	if strings.HasPrefix(body, "-") {
		sign, body = "-", body[1:]
	} else if has("+") {
		sign = "+"
	} else if has(" ") {
		sign = " "
	}
	pad := c.Width - len(sign) - len(body)
	if pad < 0 {
		pad = 0
	}
	if pad > 0 {
		st.NonTrivial("padded:" + c.Verb)
		if sign != "" && has("0") && !has("-") && c.X.Form == 0 {
			st.Class("zero-padded-with-sign")
		}
	}
	var want string
	switch {
	case has("0") && !has("-") && c.X.Form == 0:
		want = sign + strings.Repeat("0", pad) + body
	case has("-"):
		want = sign + body + strings.Repeat(" ", pad)
	default:
		want = strings.Repeat(" ", pad) + sign + body
	}
	if got != want {
		return fmt.Errorf("Sprintf(%q, %v) = %q, want %q (sign, then zero padding for finite values when 0 is set and - is not, otherwise space padding)", f, c.X, got, want)
	}
	// the way fmt applies them to numbers: compare with fmt's own *big.Int formatting
	if c.X.Form == 0 && c.X.Exp == 0 && (c.Verb == "v" || c.Verb == "s") {
		b := c.X.Big()
		if c.X.Neg {
			b.Neg(b)
		}
		if !(c.X.Neg && b.Sign() == 0) { // big.Int has no negative zero
			st.Class("cross-checked-with-big.Int")
			if ref := fmt.Sprintf(f, b); ref != got {
				return fmt.Errorf("Sprintf(%q, %v) = %q, but fmt formats the same integer as %q", f, c.X, got, ref)
			}
		}
	}
	return nil
}

func TestC14(t *testing.T)       { core.Run(t, "C14", genCase, checkDiff) }
func TestC14Replay(t *testing.T) { core.Replay(t, "C14", checkDiff) }
