package c14

import (
	"testing"

	"verif/harness/core"
)

// FuzzParse drives the parse oracle with coverage-guided raw bytes (thorough tier only;
// native fuzzing cannot be seeded, the saved crasher is the reproducible unit).
func FuzzParse(f *testing.F) {
	for _, s := range []string{"1", "-1.5e3", ".5", "5.", "1e", "e5", ".-5", ".+5", "nansnan", "sNaN123", "İnf", "inf", "-Infinity", "NaN99999999999999999999999",
		"1e100000", "0001e99999", "0.001e-99998", "1.2e-100000", "1e2147483648", "+.0e-0", "１２", "1_0", "0x10", " 1", "1 ", "--1", "+-1", "1.2.3", "1e5e5", ""} {
		f.Add(s)
	}
	f.Fuzz(func(t *testing.T, s string) {
		if len(s) > 64 {
			return
		}
		st := core.NewStats("C14")
		if err := check(Case{Kind: "parse", S: s, Src: "fuzz"}, st); err != nil {
			t.Fatalf("%v", err)
		}
	})
}
