// C05: any argument may alias the destination or another argument. Oracle (metamorphic):
// the invocation with all-distinct fresh objects gives the expected destination, Condition
// and error; every aliased invocation must match it field for field, and operands that are
// not the destination must be unchanged.
package c05

import (
	"fmt"
	"testing"

	"github.com/cockroachdb/apd/v3"
	"pgregory.net/rapid"
	"verif/harness/arith"
	"verif/harness/core"
	"verif/harness/gen"
)

type Case struct {
	arith.Case
	Pattern string `json:"pattern"` // d=x | d=y | x=y | d=x=y ; for decimal methods: see below
	Which   int    `json:"which"`
}

var cheap = []string{"add", "sub", "mul", "quo", "quointeger", "rem", "cmp", "abs", "neg", "round", "quantize", "rtie", "rtiv", "ceil", "floor", "reduce", "sqrt",
	"dec.modf", "dec.neg", "dec.abs", "dec.reduce", "dec.set", "big"}
var costly = []string{"cbrt", "exp", "ln", "log10", "pow"}

var bigOps = []string{"Add", "Sub", "Mul", "Quo", "Rem", "And", "Or", "Xor", "AndNot", "Div", "Mod", "GCD", "Exp"}

func genCase(t *rapid.T) Case {
	var c Case
	costlyOp := gen.Pick(t, 6, "costly") == 0
	if costlyOp {
		c.Op = costly[gen.Pick(t, len(costly), "op")]
		c.Ctx = gen.Context(t, 20)
	} else {
		c.Op = cheap[gen.Pick(t, len(cheap), "op")]
		c.Ctx = gen.Context(t, 400)
	}
	op := c.Op
	switch op {
	case "dec.modf":
		c.Op = "ceil"
	case "dec.neg", "dec.abs", "dec.set":
		c.Op = "abs"
	case "dec.reduce":
		c.Op = "reduce"
	case "big":
		c.Op = "add"
	}
	arith.FillOperands(t, &c.Case)
	c.Op = op
	// sometimes special or zero operands (the prologues are alias-sensitive too)
	if gen.Pick(t, 8, "spx") == 0 {
		c.X = gen.Any(t, c.Ctx, "sx")
		if gen.Pick(t, 2, "spx2") == 0 {
			c.X = gen.Special(t, "sx2")
		}
	}
	if gen.Pick(t, 8, "spy") == 0 {
		c.Y = gen.Zero(t, c.Ctx, "sy")
		if gen.Pick(t, 2, "spy2") == 0 {
			c.Y = gen.Special(t, "sy2")
		}
	}
	if gen.Pick(t, 10, "heap") == 0 && c.X.Form == 0 && !costlyOp {
		c.X.Coeff = gen.DigitsN(t, rapid.IntRange(39, 80).Draw(t, "hl"), gen.Pick(t, 10, "hs"), "heapc")
	}
	if costlyOp && gen.Pick(t, 6, "edge") == 1 && c.X.Form == 0 {
		// Operands at the edge of the package's exponent range, where the composite functions
		// fail part-way through (an inner Ln, Mul or Exp hits the limit): what a failed call
		// leaves in the destination must not depend on aliasing either.
		c.Ctx.Emax, c.Ctx.Emin = gen.Limit, -gen.Limit
		nd := int32(len(c.X.Coeff))
		if rapid.Bool().Draw(t, "edgelow") {
			c.X.Exp = -gen.Limit + int32(rapid.IntRange(0, 40).Draw(t, "edgeo"))
		} else {
			c.X.Exp = gen.Limit - nd + 1 - int32(rapid.IntRange(0, 40).Draw(t, "edgeo2"))
		}
		if c.Op == "pow" && c.Y.Form == 0 {
			switch gen.Pick(t, 3, "edgey") {
			case 0: // just below an integer
				c.Y = core.Dec{Coeff: "9999" + gen.Digits(t, 3, "ey"), Exp: -7 + int32(gen.Pick(t, 4, "eye")), Neg: rapid.Bool().Draw(t, "eyneg")}
			case 1: // a tiny fraction
				c.Y = core.Dec{Coeff: gen.Digits(t, 3, "ey2"), Exp: -gen.Limit + int32(rapid.IntRange(0, 20).Draw(t, "eye2"))}
				if c.Y.Coeff == "0" {
					c.Y.Coeff = "1"
				}
			}
		}
	}
	pats := []string{"d=x", "d=y", "x=y", "d=x=y"}
	if !arith.Binary(c.Op) && c.Op != "big" {
		pats = []string{"d=x"}
	}
	c.Pattern = pats[gen.Pick(t, len(pats), "pattern")]
	c.Which = gen.Pick(t, 64, "which")
	if c.Pattern == "x=y" || c.Pattern == "d=x=y" {
		c.Y = c.X
	}
	return c
}

func errStr(e error) string {
	if e == nil {
		return "<nil>"
	}
	return e.Error()
}

func same(a, b arith.Out) bool {
	return core.SameFields(a.D, b.D) && a.Res == b.Res && errStr(a.Err) == errStr(b.Err) && a.N == b.N
}

func showOut(o arith.Out) string {
	return fmt.Sprintf("%s flags=%s err=%s n=%d", core.Show(o.D), core.FlagStr(o.Res), errStr(o.Err), o.N)
}

func check(c Case, st *core.Stats) error {
	st.Class("op:" + c.Op)
	switch c.Op {
	case "dec.modf":
		return checkModf(c, st)
	case "dec.neg", "dec.abs", "dec.reduce", "dec.set":
		return checkDecMethod(c, st)
	case "big":
		return checkBig(c, st)
	}
	ctx := c.Ctx.Apd()
	var want, got arith.Out
	x, y := c.X.Apd(), c.Y.Apd()
	var px, py *apd.Decimal // operands as passed in the aliased call
	core.Guard(st, func() {
		want = arith.Call(c.Op, c.Ctx.Apd(), new(apd.Decimal), c.X.Apd(), c.Y.Apd(), c.QExp, c.Str)
		switch c.Pattern {
		case "d=x":
			px, py = x, y
			got = arith.Call(c.Op, ctx, x, x, y, c.QExp, c.Str)
		case "d=y":
			px, py = x, y
			got = arith.Call(c.Op, ctx, y, x, y, c.QExp, c.Str)
		case "x=y":
			px, py = x, x
			got = arith.Call(c.Op, ctx, new(apd.Decimal), x, x, c.QExp, c.Str)
		default: // d=x=y
			px, py = x, x
			got = arith.Call(c.Op, ctx, x, x, x, c.QExp, c.Str)
		}
	})
	if want.Err == nil && !core.SameFields(want.D, c.X.Apd()) {
		st.NonTrivial(c.Pattern)
	} else {
		st.Class("result-equals-operand-or-error:" + c.Pattern)
	}
	classify(c, st)
	if want.Err != nil && got.Err != nil && errStr(want.Err) == errStr(got.Err) && want.Res == got.Res {
		// both fail identically: the destination is unspecified for system errors
		if want.Res&(apd.SystemOverflow|apd.SystemUnderflow) != 0 || want.Res == 0 {
			return nil
		}
	}
	if !same(want, got) {
		return fmt.Errorf("%v with %s: %s, but with distinct objects: %s", c.Case, c.Pattern, showOut(got), showOut(want))
	}
	// operands that are not the destination are unchanged
	if px != got.D && !core.SameFields(px, c.X.Apd()) {
		return fmt.Errorf("%v with %s: operand x changed to %s", c.Case, c.Pattern, core.Show(px))
	}
	if arith.Binary(c.Op) && py != got.D && py != px && !core.SameFields(py, c.Y.Apd()) {
		return fmt.Errorf("%v with %s: operand y changed to %s", c.Case, c.Pattern, core.Show(py))
	}
	return nil
}

func classify(c Case, st *core.Stats) {
	if c.X.Form == 0 && (c.Op == "ceil" || c.Op == "floor") && int64(-c.X.Exp) > int64(len(c.X.Coeff)) && !c.X.IsZero() {
		st.Class("ceil/floor-of-|x|<0.1")
	}
	if c.X.Form >= 2 || (arith.Binary(c.Op) && c.Y.Form >= 2) {
		st.Class("nan-operand")
	}
	if c.X.Form == 2 {
		st.Class("signaling-nan-as-destination-candidate")
	}
	if arith.Binary(c.Op) && c.X.IsZero() && c.Y.IsZero() {
		st.Class("zero-op-zero")
	}
	if len(c.X.Coeff) >= 39 {
		st.Class("heap-coefficient")
	}
}

func checkModf(c Case, st *core.Stats) error {
	if c.X.Form != 0 {
		return nil
	}
	var wi, wf apd.Decimal
	c.X.Apd().Modf(&wi, &wf)
	d := c.X.Apd()
	var gi, gf *apd.Decimal
	mode := c.Which % 4
	core.Guard(st, func() {
		switch mode {
		case 0: // integ == d
			var f apd.Decimal
			d.Modf(d, &f)
			gi, gf = d, &f
		case 1: // frac == d
			var i apd.Decimal
			d.Modf(&i, d)
			gi, gf = &i, d
		case 2: // integ == d, frac nil
			d.Modf(d, nil)
			gi = d
		default: // frac == d, integ nil
			d.Modf(nil, d)
			gf = d
		}
	})
	st.NonTrivial(fmt.Sprintf("modf-alias-%d", mode))
	if int64(-c.X.Exp) > int64(len(c.X.Coeff)) {
		st.Class("modf-of-|x|<0.1")
	}
	if c.X.Exp > 0 {
		st.Class("modf-positive-exponent")
	}
	if gi != nil && !core.SameFields(gi, &wi) {
		return fmt.Errorf("Modf(%v) aliasing mode %d: integ = %s, distinct objects give %s", c.X, mode, core.Show(gi), core.Show(&wi))
	}
	if gf != nil && !core.SameFields(gf, &wf) {
		return fmt.Errorf("Modf(%v) aliasing mode %d: frac = %s, distinct objects give %s", c.X, mode, core.Show(gf), core.Show(&wf))
	}
	return nil
}

func checkDecMethod(c Case, st *core.Stats) error {
	x := c.X.Apd()
	var want, got apd.Decimal
	var wn, gn int
	core.Guard(st, func() {
		switch c.Op {
		case "dec.neg":
			want.Neg(c.X.Apd())
			x.Neg(x)
		case "dec.abs":
			want.Abs(c.X.Apd())
			x.Abs(x)
		case "dec.set":
			want.Set(c.X.Apd())
			x.Set(x)
		default:
			_, wn = want.Reduce(c.X.Apd())
			_, gn = x.Reduce(x)
		}
	})
	got = *x
	st.NonTrivial(c.Op)
	if !core.SameFields(&got, &want) || wn != gn {
		return fmt.Errorf("%s(%v) with d == x: %s n=%d, distinct objects give %s n=%d", c.Op, c.X, core.Show(&got), gn, core.Show(&want), wn)
	}
	return nil
}

func checkBig(c Case, st *core.Stats) error {
	op := bigOps[c.Which%len(bigOps)]
	xv, yv := c.X.Big(), c.Y.Big()
	if c.X.Neg {
		xv.Neg(xv)
	}
	if c.Y.Neg {
		yv.Neg(yv)
	}
	call := func(z, x, y *apd.BigInt) (pan any) {
		defer func() { pan = recover() }()
		switch op {
		case "Add":
			z.Add(x, y)
		case "Sub":
			z.Sub(x, y)
		case "Mul":
			z.Mul(x, y)
		case "Quo":
			z.Quo(x, y)
		case "Rem":
			z.Rem(x, y)
		case "And":
			z.And(x, y)
		case "Or":
			z.Or(x, y)
		case "Xor":
			z.Xor(x, y)
		case "AndNot":
			z.AndNot(x, y)
		case "Div":
			z.Div(x, y)
		case "Mod":
			z.Mod(x, y)
		case "GCD":
			z.GCD(nil, nil, x, y)
		case "Exp":
			var e apd.BigInt
			e.SetInt64(3)
			z.Exp(x, &e, y)
		}
		return nil
	}
	mk := func() (*apd.BigInt, *apd.BigInt) {
		return new(apd.BigInt).SetMathBigInt(xv), new(apd.BigInt).SetMathBigInt(yv)
	}
	x0, y0 := mk()
	var want apd.BigInt
	var wp, gp any
	x, y := mk()
	var got *apd.BigInt
	core.Guard(st, func() {
		wp = call(&want, x0, y0)
		switch c.Pattern {
		case "d=x":
			gp = call(x, x, y)
			got = x
		case "d=y":
			gp = call(y, x, y)
			got = y
		case "x=y":
			got = new(apd.BigInt)
			gp = call(got, x, x)
		default:
			gp = call(x, x, x)
			got = x
		}
	})
	st.NonTrivial("big:" + c.Pattern)
	if (wp == nil) != (gp == nil) {
		return fmt.Errorf("BigInt.%s(%s, %s) with %s: panic %v, with distinct objects: panic %v", op, xv, yv, c.Pattern, gp, wp)
	}
	if wp != nil {
		return nil
	}
	if got.MathBigInt().Cmp(want.MathBigInt()) != 0 || got.Sign() != want.Sign() {
		return fmt.Errorf("BigInt.%s(%s, %s) with %s = %s (sign %d), with distinct objects %s (sign %d)", op, xv, yv, c.Pattern, got.String(), got.Sign(), want.String(), want.Sign())
	}
	return nil
}

func TestC05(t *testing.T)       { core.Run(t, "C05", genCase, check) }
func TestC05Replay(t *testing.T) { core.Replay(t, "C05", check) }
