// C01: Add/Sub/Mul/Quo/Abs/Neg/Round and context-aware parsing return the exactly rounded
// result. Oracle: exact rational result rounded once by the independent model ref.Round.
package c01

import (
	"fmt"
	"strings"
	"testing"

	"github.com/cockroachdb/apd/v3"
	"verif/harness/arith"
	"verif/harness/core"
	"verif/harness/ref"
)

var ops = []string{"add", "sub", "mul", "quo", "abs", "neg", "round", "setstring", "add", "sub", "mul", "quo", "reduce"}

var gen = arith.Gen(ops, 400, true)

func check(c arith.Case, st *core.Stats) error {
	if c.Op == "reduce" && c.Ctx.P != 0 {
		c.Ctx.P = 0 // Reduce is in C01 only through its Precision-0 clause
	}
	e := arith.Reference(c)
	var o arith.Out
	core.Guard(st, func() { o = arith.Exec(c) })
	st.Class("op:" + c.Op)
	if c.Ctx.P == 0 {
		st.Class("precision0")
	}
	if !e.Defined {
		st.Class("undefined-by-reference")
		return nil
	}
	if e.Limit {
		st.Class("limit-class")
	}
	if o.Err != nil {
		if e.Limit {
			st.Class("limit-class-error")
			return nil
		}
		return fmt.Errorf("%v: unexpected error %v (flags %s); expected %v", c, o.Err, core.FlagStr(o.Res), e.R)
	}
	if err := core.Valid(o.D); err != nil {
		return fmt.Errorf("%v: ill-formed result %s: %v", c, core.Show(o.D), err)
	}
	classify(c, e, st)
	if !ref.SameValue(o.D, e.R) {
		if e.R.Sub && e.HasEx && e.Exact.Neg && isDirected(c.Ctx.Rounding) && st.Tolerate("D2") {
			return nil
		}
		return fmt.Errorf("%v: got %s flags=%s, exact result %v rounds to %v", c, core.Show(o.D), core.FlagStr(o.Res), e.Exact, e.R)
	}
	return nil
}

func isDirected(m string) bool {
	switch ref.Mode(m) {
	case "floor", "ceiling":
		return true
	}
	return false
}

func classify(c arith.Case, e arith.Expect, st *core.Stats) {
	r := e.R
	mode := ref.Mode(c.Ctx.Rounding)
	switch {
	case r.Over:
		st.NonTrivial("overflow")
		if r.Carry {
			st.Class("overflow-by-carry")
		}
	case r.Coeff.Sign() == 0 && e.HasEx && e.Exact.IsZero() && (c.Op == "add" || c.Op == "sub") && !c.X.IsZero() && !c.Y.IsZero():
		st.NonTrivial("exact-cancellation")
	case r.Inexact && r.Sub:
		st.NonTrivial("subnormal-inexact")
		sign := "+"
		if r.Neg {
			sign = "-"
		}
		st.Class("subnormal-inexact:" + sign + mode)
		if r.Half == 0 {
			st.Class("tie")
		}
	case r.Inexact:
		st.NonTrivial("rounded-inexact")
		if r.Half == 0 {
			st.Class("tie")
		}
		if r.Carry {
			st.Class("carry")
		}
	case r.Dropped:
		st.NonTrivial("rounded-exact")
	}
	if r.Sub && !r.Inexact {
		st.Class("subnormal-exact")
	}
	if e.HasEx && !e.Exact.IsZero() && c.Ctx.P > 0 {
		if ref.AdjExp(e.Exact) < int64(c.Ctx.Emin)-int64(c.Ctx.P)+1 {
			st.Class("below-etiny")
		}
	}
	if int64(len(c.X.Coeff)) > int64(c.Ctx.P) && c.Ctx.P > 0 {
		st.Class("operand-longer-than-P")
	}
	if len(c.X.Coeff) > 39 {
		st.Class("heap-coefficient")
	}
	_ = apd.Finite
}

// enumerated: operands whose coefficient length sits where the digit count beyond the
// 128-bit table (a floating-point estimate from the bit length) is most fragile - the
// convergents and semiconvergents of log10(2) - with a leading-digit pattern just above a
// power of ten. A digit count that is one short misrounds these by one digit.
func enumerated() []arith.Case {
	var out []arith.Case
	one := core.Dec{Coeff: "1"}
	zero := core.Dec{Coeff: "0"}
	for _, k := range []int{146, 643, 2136, 4647, 8651, 12655, 21306} {
		for _, lead := range []string{"1000045", "1000000", "9999995"} {
			digits := lead + strings.Repeat("7", k+1-len(lead))
			x := core.Dec{Coeff: digits, Exp: int32(-k / 2)}
			for _, mode := range []string{"half_even", "down", "up"} {
				ctx := core.Ctx{P: 7, Emax: 100000, Emin: -100000, Rounding: mode}
				out = append(out, arith.Case{Op: "round", Ctx: ctx, X: x, Y: zero},
					arith.Case{Op: "add", Ctx: ctx, X: x, Y: core.Dec{Coeff: "0", Exp: x.Exp}},
					arith.Case{Op: "mul", Ctx: ctx, X: x, Y: one})
			}
		}
	}
	// rounding away exactly 100000 digits (the package's exponent limit, here as a digit
	// count) and one fewer; exponents far from the limits so that nothing is
	// "near the limit" about the operand itself
	for _, p := range []uint32{1, 7} {
		for _, extra := range []int{99999, 100000} { // one more is beyond what Round accepts (a documented package limit)
			digits := "1" + strings.Repeat("0", int(p)+extra-2) + "1"
			x := core.Dec{Coeff: digits, Exp: -50000}
			for _, mode := range []string{"down", "half_even", "up"} {
				ctx := core.Ctx{P: p, Emax: 100000, Emin: -100000, Rounding: mode}
				out = append(out, arith.Case{Op: "round", Ctx: ctx, X: x, Y: zero}, arith.Case{Op: "mul", Ctx: ctx, X: x, Y: one})
			}
		}
	}
	return out
}

func TestC01(t *testing.T)       { core.RunPre(t, "C01", enumerated(), gen, checkDiff) }
func TestC01Replay(t *testing.T) { core.Replay(t, "C01", checkDiffAll) }

// the model check followed by the differential comparison with Python's decimal module
// (one case in 2 during the search, every case on replay)
var checkDiff = arith.WithDifferential(check, arith.DiffOpts{Value: true}, 2)
var checkDiffAll = arith.WithDifferential(check, arith.DiffOpts{Value: true}, 1)
