// C02: condition flags are a function of the exact result only. Oracle: the flags the
// exact-rational reference derives (Inexact, Subnormal, Underflow, Overflow, Division*,
// InvalidOperation) plus the stated implications. Values are not asserted here (C01).
package c02

import (
	"fmt"
	"math/big"
	"strings"
	"testing"

	"github.com/cockroachdb/apd/v3"
	"pgregory.net/rapid"
	"verif/harness/arith"
	"verif/harness/core"
	"verif/harness/gen"
	"verif/harness/ref"
)

var ops = []string{"add", "sub", "mul", "quo", "quointeger", "rem", "round", "quantize", "rtie", "reduce", "sqrt", "quo", "mul", "pow"}

var base = arith.Gen(ops, 400, false)

// the composite functions: no exact reference here (C11, C12 judge their values), but the
// implications between the flags of one Condition hold for every operation
var composite = arith.Gen([]string{"exp", "ln", "log10", "cbrt", "pow", "sqrt"}, 30, false)

func genCase(t *rapid.T) arith.Case {
	if gen.Pick(t, 12, "composite") == 1 {
		c := composite(t)
		c.Note = "composite"
		return c
	}
	c := base(t)
	if c.Op == "pow" {
		return genPow(t, c)
	}
	switch c.Op {
	case "quo", "quointeger", "rem":
		if gen.Pick(t, 25, "divzero") == 0 {
			c.Y = gen.Zero(t, c.Ctx, "y0")
			if gen.Pick(t, 3, "zerozero") == 0 {
				c.X = gen.Zero(t, c.Ctx, "x0")
			}
		}
	case "sqrt":
		if gen.Pick(t, 25, "negsqrt") == 0 {
			c.X.Neg = true
		}
	}
	// NaN operands: a signaling NaN always raises InvalidOperation, a quiet one nothing
	{
		if gen.Pick(t, 25, "nanop") == 0 {
			n := core.Dec{Form: int8(2 + gen.Pick(t, 2, "quiet")), Coeff: "0", Neg: rapid.Bool().Draw(t, "nanneg")}
			if arith.Binary(c.Op) && rapid.Bool().Draw(t, "nany") {
				c.Y = n
			} else {
				c.X = n
			}
		}
	}
	// an infinity left behind by an overflow still carries a coefficient and exponent; it is
	// an exact operand of Round/Reduce and must raise nothing, also with rounding disabled
	if (c.Op == "round" || c.Op == "reduce") && gen.Pick(t, 20, "junkinf") == 0 {
		c.X = core.Dec{Form: 1, Neg: rapid.Bool().Draw(t, "infneg"), Coeff: gen.Digits(t, 40, "junk"), Exp: int32(rapid.IntRange(-200, 200).Draw(t, "junke"))}
		if gen.Pick(t, 2, "p0") == 0 {
			c.Ctx.P = 0
		}
	}
	return c
}

// genPow: integer powers (|n| <= 64), the one family of Pow whose exact result is a
// rational that can be written down: x**n for n > 0, 1/x**|n| for n < 0.
func genPow(t *rapid.T, c arith.Case) arith.Case {
	if c.Ctx.P > 60 {
		c.Ctx.P = c.Ctx.P%60 + 1
	}
	p := int(c.Ctx.P)
	switch gen.Pick(t, 4, "pxk") {
	case 0: // 1 +/- m*10^-k: squares and cubes whose extra digits sit far to the right
		k := rapid.IntRange(1, 2*p+3).Draw(t, "pk")
		m := gen.Digits(t, 3, "pm")
		if len(m) > k {
			m = m[:k]
		}
		one := new(big.Int).Exp(big.NewInt(10), big.NewInt(int64(k)), nil)
		mv, _ := new(big.Int).SetString(m, 10)
		if rapid.Bool().Draw(t, "pminus") {
			one.Sub(one, mv)
		} else {
			one.Add(one, mv)
		}
		c.X = core.Dec{Coeff: one.String(), Exp: int32(-k)}
	case 1: // short coefficients: exact results that fit
		c.X = core.Dec{Coeff: gen.Digits(t, 4, "pshort"), Exp: int32(rapid.IntRange(-6, 6).Draw(t, "pse"))}
		if gen.Pick(t, 2, "psmooth") == 0 {
			// 2^a * 5^b: bases whose negative powers terminate, with coefficients on both sides
			// of 64 and 128 bits
			v := new(big.Int).Exp(big.NewInt(2), big.NewInt(int64(rapid.IntRange(0, 70).Draw(t, "psa"))), nil)
			v.Mul(v, new(big.Int).Exp(big.NewInt(5), big.NewInt(int64(rapid.IntRange(0, 58).Draw(t, "psb"))), nil))
			c.X = core.Dec{Coeff: v.String(), Exp: int32(rapid.IntRange(-30, 6).Draw(t, "psse"))}
			if c.Ctx.P < 20 {
				c.Ctx.P += 20
			}
		}
	default:
		c.X = gen.LogArg(t, c.Ctx, 6, "x")
	}
	if c.X.IsZero() {
		c.X.Coeff = "3"
	}
	c.X.Neg = gen.Pick(t, 4, "pxneg") == 0
	n := rapid.IntRange(1, 64).Draw(t, "pn")
	if gen.Pick(t, 2, "pnsmall") == 0 {
		n = rapid.IntRange(1, 5).Draw(t, "pns")
	}
	z := gen.Pick(t, 3, "pnz") // integer written with fraction zeros
	c.Y = core.Dec{Coeff: fmt.Sprint(n) + strings.Repeat("0", z), Exp: int32(-z), Neg: gen.Pick(t, 4, "pnneg") == 0}
	return c
}

// checkPow judges the value-determined flags of an integer power against the exact result
// and the value actually returned (Pow is only accurate to an ulp, so the rounded value is
// not prescribed here): Inexact iff the returned value differs from the exact one;
// Subnormal iff the exact result is below 10^MinExponent; Underflow iff both; Overflow
// whenever the exact result is at least 10^(MaxExponent+1) and never when it is below
// 10^MaxExponent.
func checkPow(c arith.Case, o arith.Out, st *core.Stats) error {
	if c.X.Form != 0 || c.Y.Form != 0 || c.X.IsZero() || c.Y.IsZero() || c.Ctx.P == 0 {
		return nil
	}
	yv := c.Y.Big()
	if c.Y.Exp < 0 {
		q, r := new(big.Int).QuoRem(yv, ref.Pow10(int64(-c.Y.Exp)), new(big.Int))
		if r.Sign() != 0 {
			return nil
		}
		yv = q
	} else {
		yv.Mul(yv, ref.Pow10(int64(c.Y.Exp)))
	}
	if yv.BitLen() > 7 {
		return nil
	}
	n := yv.Int64()
	pw := new(big.Int).Exp(c.X.Big(), big.NewInt(n), nil)
	ex := ref.Exact{Neg: c.X.Neg && n%2 == 1, Num: pw, Den: big.NewInt(1), Exp: int64(c.X.Exp) * n}
	if c.Y.Neg {
		ex = ref.Exact{Neg: ex.Neg, Num: big.NewInt(1), Den: pw, Exp: -ex.Exp}
	}
	adj := ref.AdjExp(ex)
	if adj > gen.Limit-2000 || adj < -gen.Limit+2000 {
		st.Class("limit-class")
		return nil
	}
	if o.Err != nil {
		return fmt.Errorf("%v: unexpected error %v (flags %s) with an empty trap set", c, o.Err, core.FlagStr(o.Res))
	}
	label := "pow:positive-integer"
	if c.Y.Neg {
		label = "pow:negative-integer"
	}
	st.NonTrivial(label)
	desc := fmt.Sprintf("%v: result %s flags %s, exact value %v", c, core.Show(o.D), core.FlagStr(o.Res), ex)
	if o.D.Form == apd.NaN {
		return fmt.Errorf("%s: NaN", desc)
	}
	// returned == exact ?  coefficient * 10^exp * Den == Num * 10^Exp, signs equal
	same := false
	if o.D.Form == apd.Finite {
		l := new(big.Int).Mul(o.D.Coeff.MathBigInt(), ex.Den)
		r := new(big.Int).Set(ex.Num)
		if d := int64(o.D.Exponent) - ex.Exp; d >= 0 {
			l.Mul(l, ref.Pow10(d))
		} else {
			r.Mul(r, ref.Pow10(-d))
		}
		same = l.Cmp(r) == 0 && o.D.Negative == ex.Neg
	}
	if same {
		st.Class("pow:returned-exactly")
	}
	if same && o.Res.Inexact() && c.Y.Neg && st.Tolerate("D38") {
		// known finding: spurious Inexact when x**|y| exceeds the working precision but 1/x**|y| fits
	} else if same == o.Res.Inexact() {
		return fmt.Errorf("%s: Inexact=%v but the returned value %s the exact one", desc, o.Res.Inexact(), map[bool]string{true: "equals", false: "differs from"}[same])
	}
	sub := adj < int64(c.Ctx.Emin)
	if sub {
		st.Class("pow:exact-result-subnormal")
	}
	if sub != o.Res.Subnormal() {
		return fmt.Errorf("%s: Subnormal=%v but the exact result has adjusted exponent %d, MinExponent %d", desc, o.Res.Subnormal(), adj, c.Ctx.Emin)
	}
	if o.Res.Underflow() != (sub && o.Res.Inexact()) {
		return fmt.Errorf("%s: Underflow=%v with Subnormal=%v Inexact=%v", desc, o.Res.Underflow(), sub, o.Res.Inexact())
	}
	if adj > int64(c.Ctx.Emax) && !o.Res.Overflow() {
		return fmt.Errorf("%s: the exact result is above the range but Overflow is not raised", desc)
	}
	if adj < int64(c.Ctx.Emax) && o.Res.Overflow() {
		return fmt.Errorf("%s: Overflow raised but the exact result is below 10^MaxExponent", desc)
	}
	if o.Res&(apd.DivisionByZero|apd.DivisionUndefined|apd.DivisionImpossible|apd.InvalidOperation) != 0 {
		return fmt.Errorf("%s: division/invalid condition on a defined power", desc)
	}
	return nil
}

func isNaN(d core.Dec) bool { return d.Form >= 2 }

const valueMask = apd.Inexact | apd.Subnormal | apd.Underflow | apd.Overflow | apd.DivisionByZero |
	apd.DivisionUndefined | apd.DivisionImpossible | apd.InvalidOperation

// Quantize/RoundToIntegral never raise Underflow/Overflow; their Subnormal reporting is
// not part of the statement, so it is masked out.
const quantMask = valueMask &^ apd.Subnormal

func check(c arith.Case, st *core.Stats) error {
	e := arith.Reference(c)
	var o arith.Out
	core.Guard(st, func() { o = arith.Exec(c) })
	st.Class("op:" + c.Op)
	// implications hold for every call, defined by the reference or not
	if extra := o.Res &^ core.AllFlags; extra != 0 {
		return fmt.Errorf("%v: undocumented condition bits %#x", c, uint32(extra))
	}
	if o.Res.Overflow() && !o.Res.Inexact() && !o.Res.SystemOverflow() {
		return fmt.Errorf("%v: Overflow without Inexact (flags %s)", c, core.FlagStr(o.Res))
	}
	if o.Err == nil && o.D.Form == apd.Finite && o.Res.Inexact() && !o.Res.Rounded() {
		return fmt.Errorf("%v: finite result %s with Inexact but not Rounded (flags %s)", c, core.Show(o.D), core.FlagStr(o.Res))
	}
	// (Quantize and RoundToIntegral* never raise Underflow, by specification)
	if o.Err == nil && c.Op != "quantize" && c.Op != "rtie" && c.Op != "rtiv" && o.Res.Underflow() != (o.Res.Subnormal() && o.Res.Inexact()) {
		return fmt.Errorf("%v: result %s flags %s: Underflow must be raised exactly when Subnormal and Inexact are", c, core.Show(o.D), core.FlagStr(o.Res))
	}
	if c.Note == "composite" {
		if c.Op == "cbrt" && c.X.Form == 0 && !c.X.IsZero() && o.Err == nil && c.Ctx.P > 0 && !arith.NearLimit(c, nil) {
			// a perfect cube whose root fits: the exact result is known, so are its conditions
			if ex, exact := ref.CbrtExact(c.X, int64(c.Ctx.P)); exact {
				if want := ref.Round(ex, c.Ctx); !want.Inexact && want.Form == apd.Finite {
					st.NonTrivial("composite:cbrt:exact-root:" + core.FlagStr(want.Flags()&valueMask))
					if got := o.Res & valueMask; got != want.Flags()&valueMask {
						return fmt.Errorf("%v: result %s flags %s, expected exactly %s for the exact root %v", c, core.Show(o.D), core.FlagStr(o.Res), core.FlagStr(want.Flags()&valueMask), want)
					}
				}
			}
		}
		if o.Err == nil && o.Res&(apd.Subnormal|apd.Overflow) != 0 {
			st.NonTrivial("composite:" + c.Op + ":" + core.FlagStr(o.Res&(apd.Subnormal|apd.Underflow|apd.Overflow|apd.Inexact)))
		}
		return nil
	}
	// the flags are a function of the operands' values only: they must not depend on
	// whether the destination is a fresh object or one of the operands
	if o.Err == nil {
		x, y := c.X.Apd(), c.Y.Apd()
		var oa arith.Out
		core.Guard(st, func() { oa = arith.Call(c.Op, c.Ctx.Apd(), x, x, y, c.QExp, c.Str) })
		if oa.Res != o.Res {
			return fmt.Errorf("%v: flags %s with a fresh destination but %s when the destination is the first operand", c, core.FlagStr(o.Res), core.FlagStr(oa.Res))
		}
		if arith.Binary(c.Op) {
			x, y = c.X.Apd(), c.Y.Apd()
			core.Guard(st, func() { oa = arith.Call(c.Op, c.Ctx.Apd(), y, x, y, c.QExp, c.Str) })
			if oa.Res != o.Res {
				return fmt.Errorf("%v: flags %s with a fresh destination but %s when the destination is the second operand", c, core.FlagStr(o.Res), core.FlagStr(oa.Res))
			}
		}
	}
	if isNaN(c.X) || (arith.Binary(c.Op) && isNaN(c.Y)) {
		want := apd.Condition(0)
		if c.X.Form == 2 || (arith.Binary(c.Op) && c.Y.Form == 2) {
			want = apd.InvalidOperation
			st.NonTrivial("signaling-NaN-operand")
		} else {
			st.Class("quiet-NaN-operand")
		}
		if o.Err != nil || o.Res != want {
			return fmt.Errorf("%v: flags %s err=%v, expected exactly %s for NaN operands", c, core.FlagStr(o.Res), o.Err, core.FlagStr(want))
		}
		return nil
	}
	if c.X.Form == 1 && (c.Op == "round" || c.Op == "reduce") {
		st.NonTrivial("infinite-operand")
		if o.Err != nil || o.Res != 0 || o.D.Form != apd.Infinite {
			return fmt.Errorf("%v: got %s flags %s err=%v; an infinite operand is exact: expected the infinity and no conditions", c, core.Show(o.D), core.FlagStr(o.Res), o.Err)
		}
		return nil
	}
	if c.Op == "pow" {
		return checkPow(c, o, st)
	}
	if !e.Defined {
		st.Class("undefined-by-reference")
		return nil
	}
	if e.Limit {
		st.Class("limit-class")
	}
	if o.Err != nil {
		if e.Limit {
			return nil
		}
		return fmt.Errorf("%v: unexpected error %v (flags %s) with an empty trap set", c, o.Err, core.FlagStr(o.Res))
	}
	if e.Limit && arith.QuantizeMayReject(c) && o.D.Form == apd.NaN && o.Res.InvalidOperation() && c.Op == "quantize" {
		st.Class("limit-class-invalid")
		return nil // target exponent beyond the +/-100000 package limits: clean rejection
	}
	mask := apd.Condition(valueMask)
	if c.Op == "quantize" || c.Op == "rtie" {
		mask = quantMask
	}
	want := e.Cond & mask
	got := o.Res & mask
	if want != 0 {
		st.NonTrivial(core.FlagStr(want))
	}
	if e.R.Sub && !e.R.Inexact && !e.NaN {
		st.Class("exact-subnormal")
	}
	if e.R.Sub && e.R.Inexact && e.R.Form == apd.Finite && e.R.Coeff != nil && e.R.Coeff.Sign() != 0 &&
		int64(len(e.R.Coeff.String()))+e.R.Exp-1 >= int64(c.Ctx.Emin) {
		st.Class("subnormal-rounds-up-to-normal")
	}
	if got != want {
		return fmt.Errorf("%v: flags %s, expected %s on {Inexact,Subnormal,Underflow,Overflow,Division*,InvalidOperation} (result %s, exact %v -> %v)",
			c, core.FlagStr(o.Res), core.FlagStr(want), core.Show(o.D), e.Exact, e.R)
	}
	return nil
}

func TestC02(t *testing.T)       { core.Run(t, "C02", genCase, checkDiff) }
func TestC02Replay(t *testing.T) { core.Replay(t, "C02", checkDiffAll) }

// the model check followed by the differential comparison with Python's decimal module
// (one case in 2 during the search, every case on replay)
var checkDiff = arith.WithDifferential(check, arith.DiffOpts{Flags: true}, 2)
var checkDiffAll = arith.WithDifferential(check, arith.DiffOpts{Flags: true}, 1)
