// C02: condition flags are a function of the exact result only. Oracle: the flags the
// exact-rational reference derives (Inexact, Subnormal, Underflow, Overflow, Division*,
// InvalidOperation) plus the stated implications. Values are not asserted here (C01).
package c02

import (
	"fmt"
	"testing"

	"github.com/cockroachdb/apd/v3"
	"pgregory.net/rapid"
	"verif/harness/arith"
	"verif/harness/core"
	"verif/harness/gen"
)

var ops = []string{"add", "sub", "mul", "quo", "quointeger", "rem", "round", "quantize", "rtie", "reduce", "sqrt", "quo", "mul"}

var base = arith.Gen(ops, 400, false)

func genCase(t *rapid.T) arith.Case {
	c := base(t)
	switch c.Op {
	case "quo", "quointeger", "rem":
		if gen.Pick(t, 25, "divzero") == 0 {
			c.Y = gen.Zero(t, c.Ctx, "y0")
			if gen.Pick(t, 3, "zerozero") == 0 {
				c.X = gen.Zero(t, c.Ctx, "x0")
			}
		}
	case "sqrt":
		if gen.Pick(t, 25, "negsqrt") == 0 {
			c.X.Neg = true
		}
	}
	// NaN operands: a signaling NaN always raises InvalidOperation, a quiet one nothing
	{
		if gen.Pick(t, 25, "nanop") == 0 {
			n := core.Dec{Form: int8(2 + gen.Pick(t, 2, "quiet")), Coeff: "0", Neg: rapid.Bool().Draw(t, "nanneg")}
			if arith.Binary(c.Op) && rapid.Bool().Draw(t, "nany") {
				c.Y = n
			} else {
				c.X = n
			}
		}
	}
	// an infinity left behind by an overflow still carries a coefficient and exponent; it is
	// an exact operand of Round/Reduce and must raise nothing, also with rounding disabled
	if (c.Op == "round" || c.Op == "reduce") && gen.Pick(t, 20, "junkinf") == 0 {
		c.X = core.Dec{Form: 1, Neg: rapid.Bool().Draw(t, "infneg"), Coeff: gen.Digits(t, 40, "junk"), Exp: int32(rapid.IntRange(-200, 200).Draw(t, "junke"))}
		if gen.Pick(t, 2, "p0") == 0 {
			c.Ctx.P = 0
		}
	}
	return c
}

func isNaN(d core.Dec) bool { return d.Form >= 2 }

const valueMask = apd.Inexact | apd.Subnormal | apd.Underflow | apd.Overflow | apd.DivisionByZero |
	apd.DivisionUndefined | apd.DivisionImpossible | apd.InvalidOperation

// Quantize/RoundToIntegral never raise Underflow/Overflow; their Subnormal reporting is
// not part of the statement, so it is masked out.
const quantMask = valueMask &^ apd.Subnormal

func check(c arith.Case, st *core.Stats) error {
	e := arith.Reference(c)
	var o arith.Out
	core.Guard(st, func() { o = arith.Exec(c) })
	st.Class("op:" + c.Op)
	// implications hold for every call, defined by the reference or not
	if extra := o.Res &^ core.AllFlags; extra != 0 {
		return fmt.Errorf("%v: undocumented condition bits %#x", c, uint32(extra))
	}
	if o.Res.Overflow() && !o.Res.Inexact() && !o.Res.SystemOverflow() {
		return fmt.Errorf("%v: Overflow without Inexact (flags %s)", c, core.FlagStr(o.Res))
	}
	if o.Err == nil && o.D.Form == apd.Finite && o.Res.Inexact() && !o.Res.Rounded() {
		return fmt.Errorf("%v: finite result %s with Inexact but not Rounded (flags %s)", c, core.Show(o.D), core.FlagStr(o.Res))
	}
	// the flags are a function of the operands' values only: they must not depend on
	// whether the destination is a fresh object or one of the operands
	if o.Err == nil {
		x, y := c.X.Apd(), c.Y.Apd()
		var oa arith.Out
		core.Guard(st, func() { oa = arith.Call(c.Op, c.Ctx.Apd(), x, x, y, c.QExp, c.Str) })
		if oa.Res != o.Res {
			return fmt.Errorf("%v: flags %s with a fresh destination but %s when the destination is the first operand", c, core.FlagStr(o.Res), core.FlagStr(oa.Res))
		}
		if arith.Binary(c.Op) {
			x, y = c.X.Apd(), c.Y.Apd()
			core.Guard(st, func() { oa = arith.Call(c.Op, c.Ctx.Apd(), y, x, y, c.QExp, c.Str) })
			if oa.Res != o.Res {
				return fmt.Errorf("%v: flags %s with a fresh destination but %s when the destination is the second operand", c, core.FlagStr(o.Res), core.FlagStr(oa.Res))
			}
		}
	}
	if isNaN(c.X) || (arith.Binary(c.Op) && isNaN(c.Y)) {
		want := apd.Condition(0)
		if c.X.Form == 2 || (arith.Binary(c.Op) && c.Y.Form == 2) {
			want = apd.InvalidOperation
			st.NonTrivial("signaling-NaN-operand")
		} else {
			st.Class("quiet-NaN-operand")
		}
		if o.Err != nil || o.Res != want {
			return fmt.Errorf("%v: flags %s err=%v, expected exactly %s for NaN operands", c, core.FlagStr(o.Res), o.Err, core.FlagStr(want))
		}
		return nil
	}
	if c.X.Form == 1 && (c.Op == "round" || c.Op == "reduce") {
		st.NonTrivial("infinite-operand")
		if o.Err != nil || o.Res != 0 || o.D.Form != apd.Infinite {
			return fmt.Errorf("%v: got %s flags %s err=%v; an infinite operand is exact: expected the infinity and no conditions", c, core.Show(o.D), core.FlagStr(o.Res), o.Err)
		}
		return nil
	}
	if !e.Defined {
		st.Class("undefined-by-reference")
		return nil
	}
	if e.Limit {
		st.Class("limit-class")
	}
	if o.Err != nil {
		if e.Limit {
			return nil
		}
		return fmt.Errorf("%v: unexpected error %v (flags %s) with an empty trap set", c, o.Err, core.FlagStr(o.Res))
	}
	if e.Limit && arith.QuantizeMayReject(c) && o.D.Form == apd.NaN && o.Res.InvalidOperation() && c.Op == "quantize" {
		st.Class("limit-class-invalid")
		return nil // target exponent beyond the +/-100000 package limits: clean rejection
	}
	mask := apd.Condition(valueMask)
	if c.Op == "quantize" || c.Op == "rtie" {
		mask = quantMask
	}
	want := e.Cond & mask
	got := o.Res & mask
	if want != 0 {
		st.NonTrivial(core.FlagStr(want))
	}
	if e.R.Sub && !e.R.Inexact && !e.NaN {
		st.Class("exact-subnormal")
	}
	if e.R.Sub && e.R.Inexact && e.R.Form == apd.Finite && e.R.Coeff != nil && e.R.Coeff.Sign() != 0 &&
		int64(len(e.R.Coeff.String()))+e.R.Exp-1 >= int64(c.Ctx.Emin) {
		st.Class("subnormal-rounds-up-to-normal")
	}
	if got != want {
		return fmt.Errorf("%v: flags %s, expected %s on {Inexact,Subnormal,Underflow,Overflow,Division*,InvalidOperation} (result %s, exact %v -> %v)",
			c, core.FlagStr(o.Res), core.FlagStr(want), core.Show(o.D), e.Exact, e.R)
	}
	return nil
}

func TestC02(t *testing.T)       { core.Run(t, "C02", genCase, check) }
func TestC02Replay(t *testing.T) { core.Replay(t, "C02", check) }
