// C02: condition flags are a function of the exact result only. Oracle: the flags the
// exact-rational reference derives (Inexact, Subnormal, Underflow, Overflow, Division*,
// InvalidOperation) plus the stated implications. Values are not asserted here (C01).
package c02

import (
	"fmt"
	"testing"

	"github.com/cockroachdb/apd/v3"
	"pgregory.net/rapid"
	"verif/harness/arith"
	"verif/harness/core"
	"verif/harness/gen"
)

var ops = []string{"add", "sub", "mul", "quo", "quointeger", "rem", "round", "quantize", "rtie", "reduce", "sqrt", "quo", "mul"}

var base = arith.Gen(ops, 400, false)

func genCase(t *rapid.T) arith.Case {
	c := base(t)
	switch c.Op {
	case "quo", "quointeger", "rem":
		if gen.Pick(t, 25, "divzero") == 0 {
			c.Y = gen.Zero(t, c.Ctx, "y0")
			if gen.Pick(t, 3, "zerozero") == 0 {
				c.X = gen.Zero(t, c.Ctx, "x0")
			}
		}
	case "sqrt":
		if gen.Pick(t, 25, "negsqrt") == 0 {
			c.X.Neg = true
		}
	}
	return c
}

const valueMask = apd.Inexact | apd.Subnormal | apd.Underflow | apd.Overflow | apd.DivisionByZero |
	apd.DivisionUndefined | apd.DivisionImpossible | apd.InvalidOperation

// Quantize/RoundToIntegral never raise Underflow/Overflow; their Subnormal reporting is
// not part of the statement, so it is masked out.
const quantMask = valueMask &^ apd.Subnormal

func check(c arith.Case, st *core.Stats) error {
	e := arith.Reference(c)
	var o arith.Out
	core.Guard(st, func() { o = arith.Exec(c) })
	st.Class("op:" + c.Op)
	// implications hold for every call, defined by the reference or not
	if extra := o.Res &^ core.AllFlags; extra != 0 {
		return fmt.Errorf("%v: undocumented condition bits %#x", c, uint32(extra))
	}
	if o.Res.Overflow() && !o.Res.Inexact() && !o.Res.SystemOverflow() {
		return fmt.Errorf("%v: Overflow without Inexact (flags %s)", c, core.FlagStr(o.Res))
	}
	if o.Err == nil && o.D.Form == apd.Finite && o.Res.Inexact() && !o.Res.Rounded() {
		return fmt.Errorf("%v: finite result %s with Inexact but not Rounded (flags %s)", c, core.Show(o.D), core.FlagStr(o.Res))
	}
	if !e.Defined {
		st.Class("undefined-by-reference")
		return nil
	}
	if e.Limit {
		st.Class("limit-class")
	}
	if o.Err != nil {
		if e.Limit {
			return nil
		}
		return fmt.Errorf("%v: unexpected error %v (flags %s) with an empty trap set", c, o.Err, core.FlagStr(o.Res))
	}
	mask := apd.Condition(valueMask)
	if c.Op == "quantize" || c.Op == "rtie" {
		mask = quantMask
	}
	want := e.Cond & mask
	got := o.Res & mask
	if want != 0 {
		st.NonTrivial(core.FlagStr(want))
	}
	if e.R.Sub && !e.R.Inexact && !e.NaN {
		st.Class("exact-subnormal")
	}
	if e.R.Sub && e.R.Inexact && e.R.Form == apd.Finite && e.R.Coeff != nil && e.R.Coeff.Sign() != 0 &&
		int64(len(e.R.Coeff.String()))+e.R.Exp-1 >= int64(c.Ctx.Emin) {
		st.Class("subnormal-rounds-up-to-normal")
	}
	if got != want {
		return fmt.Errorf("%v: flags %s, expected %s on {Inexact,Subnormal,Underflow,Overflow,Division*,InvalidOperation} (result %s, exact %v -> %v)",
			c, core.FlagStr(o.Res), core.FlagStr(want), core.Show(o.D), e.Exact, e.R)
	}
	return nil
}

func TestC02(t *testing.T)       { core.Run(t, "C02", genCase, check) }
func TestC02Replay(t *testing.T) { core.Replay(t, "C02", check) }
