// Package core is the shared runtime of every property check: case (de)serialisation,
// counters and evidence, known findings, regression corpus, replay, and the front end
// that drives a pure Check(case) function from rapid.
package core

import (
	"bufio"
	"crypto/sha1"
	"crypto/sha256"
	"encoding/binary"
	"encoding/json"
	"fmt"
	"hash/fnv"
	"os"
	"path/filepath"
	"runtime/debug"
	"sort"
	"strings"
	"testing"
	"time"

	"pgregory.net/rapid"
)

// VerifDir is the root of the verification tree (overridable for snapshots).
func VerifDir() string {
	if d := os.Getenv("VERIF_DIR"); d != "" {
		return d
	}
	return "/verif"
}

// Stats collects what a run actually covered. It is owned by one goroutine.
type Stats struct {
	Prop     string
	Evals    int64
	Classes  map[string]int64
	Known    map[string]int64 // cases tolerated because they match an open known finding
	Strict   bool             // no tolerance (witness / regression replay)
	nontriv  map[uint64]struct{}
	samples  []json.RawMessage
	sampleOf map[string]bool
	open     map[string]bool // ids of open known findings for this property

	// per-case state
	ntLabel string
	isNT    bool
	cur     any
}

func NewStats(prop string) *Stats {
	return &Stats{Prop: prop, Classes: map[string]int64{}, Known: map[string]int64{},
		nontriv: map[uint64]struct{}{}, sampleOf: map[string]bool{}, open: map[string]bool{}}
}

// Class counts one occurrence of a named class of case.
func (s *Stats) Class(name string) { s.Classes[name]++ }

// NonTrivial marks the current case as non-trivial under the property's stated rule.
// label names the sub-class; the first case of every label is kept as a sample.
func (s *Stats) NonTrivial(label string) {
	s.isNT = true
	if s.ntLabel == "" {
		s.ntLabel = label
	}
	s.Classes["nt:"+label]++
}

// Tolerate reports whether a failure attributed to known finding id may be tolerated:
// only when that finding is listed as open for this property and the run is not strict.
// Tolerated failures are counted (excluded_known).
func (s *Stats) Tolerate(id string) bool {
	if s.Strict || !s.open[id] {
		return false
	}
	s.Known[id]++
	return true
}

// IsOpen reports whether finding id is listed open (regardless of strictness).
func (s *Stats) IsOpen(id string) bool { return s.open[id] }

func (s *Stats) begin() { s.ntLabel, s.isNT = "", false }

func (s *Stats) end(c any) {
	s.Evals++
	if !s.isNT {
		return
	}
	b, err := json.Marshal(c)
	if err != nil {
		return
	}
	h := fnv.New64a()
	h.Write(b)
	s.nontriv[h.Sum64()] = struct{}{}
	if !s.sampleOf[s.ntLabel] && len(s.samples) < 24 && len(b) < 4000 {
		s.sampleOf[s.ntLabel] = true
		s.samples = append(s.samples, json.RawMessage(fmt.Sprintf(`{"class":%q,"case":%s}`, s.ntLabel, b)))
	}
}

// Finding is one record of known_findings.jsonl.
type Finding struct {
	Property string          `json:"property"`
	ID       string          `json:"id"`
	Status   string          `json:"status"` // open | fixed
	Commit   string          `json:"commit,omitempty"`
	What     string          `json:"what"`
	Witness  json.RawMessage `json:"witness,omitempty"`
}

func LoadFindings(prop string) []Finding {
	f, err := os.Open(filepath.Join(VerifDir(), "known_findings.jsonl"))
	if err != nil {
		return nil
	}
	defer f.Close()
	var out []Finding
	sc := bufio.NewScanner(f)
	sc.Buffer(make([]byte, 1<<20), 1<<24)
	for sc.Scan() {
		line := strings.TrimSpace(sc.Text())
		if line == "" || strings.HasPrefix(line, "#") {
			continue
		}
		var fd Finding
		if err := json.Unmarshal([]byte(line), &fd); err != nil {
			fmt.Printf("INFRA: bad known_findings line: %v\n", err)
			continue
		}
		if fd.Property == prop {
			out = append(out, fd)
		}
	}
	return out
}

// Partial is what one shard process writes for the driver to merge.
type Partial struct {
	Property   string            `json:"property"`
	Evals      int64             `json:"evaluations"`
	NonTrivial int               `json:"nontrivial_in_shard"`
	Classes    map[string]int64  `json:"classes"`
	Known      map[string]int64  `json:"excluded_known"`
	Samples    []json.RawMessage `json:"samples"`
	Violations []string          `json:"violations"`
	KnownLines []string          `json:"known_lines"`
	Notes      []string          `json:"notes"`
	Regress    int               `json:"regress_cases"`
	RapidOK    bool              `json:"rapid_ok"`
	Requested  int               `json:"requested"`
	Enumerated int               `json:"enumerated"`
}

func safeCheck[C any](check func(C, *Stats) error, c C, st *Stats) (err error) {
	defer func() {
		if r := recover(); r != nil {
			if h, ok := r.(HangPanic); ok {
				panic(h)
			}
			err = fmt.Errorf("panic: %v\n%s", r, trimStack(debug.Stack()))
		}
	}()
	st.begin()
	st.cur = c
	err = check(c, st)
	st.end(c)
	return err
}

func trimStack(b []byte) string {
	lines := strings.Split(string(b), "\n")
	if len(lines) > 40 {
		lines = lines[:40]
	}
	return strings.Join(lines, "\n")
}

// HangPanic is raised by the watchdog; it must not be swallowed.
type HangPanic struct{ Msg string }

// WriteReplay stores a failing case and returns its path.
func WriteReplay[C any](prop string, c C, cause string) string {
	b, _ := json.Marshal(c)
	sum := sha1.Sum(b)
	dir := filepath.Join(VerifDir(), "replays")
	os.MkdirAll(dir, 0o755)
	p := filepath.Join(dir, fmt.Sprintf("%s-%x.json", prop, sum[:6]))
	doc := map[string]any{"property": prop, "case": json.RawMessage(b), "cause": cause}
	out, _ := json.MarshalIndent(doc, "", " ")
	os.WriteFile(p, out, 0o644)
	return p
}

type replayDoc struct {
	Property string          `json:"property"`
	Case     json.RawMessage `json:"case"`
	Cause    string          `json:"cause"`
}

func violation(p *Partial, prop, path, cause string) {
	line := fmt.Sprintf("VIOLATION property=%s replay=%s", prop, path)
	fmt.Println(line)
	first := cause
	if i := strings.IndexByte(first, '\n'); i >= 0 {
		first = first[:i]
	}
	fmt.Printf("  cause: %s\n", first)
	p.Violations = append(p.Violations, line+" :: "+first)
}

// Run is the rapid front end. gen constructs a case from rapid draws only; check is a pure
// function of the case. Before the generated search it replays (strictly) the witnesses of
// known findings and the regression corpus /verif/regress/<prop>/*.json.
func Run[C any](t *testing.T, prop string, gen func(*rapid.T) C, check func(C, *Stats) error) {
	RunPre(t, prop, nil, gen, check)
}

// RunPre is Run with a list of enumerated cases that shard 0 evaluates exhaustively
// before the generated search (Partial.Enumerated counts them).
func RunPre[C any](t *testing.T, prop string, pre []C, gen func(*rapid.T) C, check func(C, *Stats) error) {
	st := NewStats(prop)
	part := &Partial{Property: prop}
	start := time.Now()
	defer func() { writePartial(st, part, start) }()

	for _, fd := range LoadFindings(prop) {
		if fd.Status == "open" {
			st.open[fd.ID] = true
		}
	}
	if os.Getenv("VERIF_SKIP_FIXED") == "" {
		replayCorpus(t, prop, st, part, check)
		for _, c := range pre {
			part.Enumerated++
			if err := safeCheck(check, c, st); err != nil {
				path := WriteReplay(prop, c, err.Error())
				violation(part, prop, path, err.Error())
				t.Fail()
				break
			}
		}
	}
	if os.Getenv("VERIF_ONLY_CORPUS") != "" {
		part.RapidOK = true
		return
	}

	var last *C
	var lastErr error
	ok := t.Run("search", func(t *testing.T) {
		rapid.Check(t, func(rt *rapid.T) {
			c := gen(rt)
			if err := safeCheck(check, c, st); err != nil {
				cc := c
				last, lastErr = &cc, err
				rt.Fatalf("property %s violated: %v", prop, err)
			}
		})
	})
	part.RapidOK = ok
	if !ok {
		if last != nil {
			path := WriteReplay(prop, *last, lastErr.Error())
			violation(part, prop, path, lastErr.Error())
		} else {
			// rapid failed without a failing check: generator trouble, not a violation.
			part.Notes = append(part.Notes, "INFRA: rapid reported failure without a failing check")
			fmt.Println("INFRA: rapid reported failure without a failing check (generator problem)")
		}
		t.Fail()
	}
}

func replayCorpus[C any](t *testing.T, prop string, st *Stats, part *Partial, check func(C, *Stats) error) {
	// Known findings: open ones are announced, fixed ones are regression cases.
	for _, fd := range LoadFindings(prop) {
		if fd.Status == "open" {
			st.open[fd.ID] = true
		}
	}
	for _, fd := range LoadFindings(prop) {
		if len(fd.Witness) == 0 {
			continue
		}
		var c C
		if err := json.Unmarshal(fd.Witness, &c); err != nil {
			part.Notes = append(part.Notes, fmt.Sprintf("INFRA: witness of %s does not decode: %v", fd.ID, err))
			continue
		}
		st.Strict = true
		err := safeCheck(check, c, st)
		st.Strict = false
		part.Regress++
		switch {
		case fd.Status == "open" && err != nil:
			line := fmt.Sprintf("KNOWN-FINDING: property=%s %s %s", prop, fd.ID, fd.What)
			fmt.Println(line)
			part.KnownLines = append(part.KnownLines, line)
		case fd.Status == "open":
			n := fmt.Sprintf("NOTE: open known finding %s no longer reproduces on its witness", fd.ID)
			fmt.Println(n)
			part.Notes = append(part.Notes, n)
		case err != nil: // fixed finding came back
			path := WriteReplay(prop, c, "regression of fixed finding "+fd.ID+": "+err.Error())
			violation(part, prop, path, "regression of fixed finding "+fd.ID+": "+err.Error())
			t.Fail()
		}
	}
	files, _ := filepath.Glob(filepath.Join(VerifDir(), "regress", prop, "*.json"))
	sort.Strings(files)
	for _, f := range files {
		b, err := os.ReadFile(f)
		if err != nil {
			continue
		}
		var doc replayDoc
		var c C
		if err := json.Unmarshal(b, &doc); err != nil || len(doc.Case) == 0 {
			part.Notes = append(part.Notes, "INFRA: bad regress file "+f)
			continue
		}
		if err := json.Unmarshal(doc.Case, &c); err != nil {
			part.Notes = append(part.Notes, "INFRA: bad regress case "+f)
			continue
		}
		st.Strict = false
		part.Regress++
		if err := safeCheck(check, c, st); err != nil {
			path := WriteReplay(prop, c, err.Error())
			violation(part, prop, path, "regression case "+filepath.Base(f)+": "+err.Error())
			t.Fail()
		}
	}
}

// Replay runs the check on the case stored in $VERIF_REPLAY, bypassing rapid.
func Replay[C any](t *testing.T, prop string, check func(C, *Stats) error) {
	path := os.Getenv("VERIF_REPLAY")
	if path == "" {
		t.Skip("VERIF_REPLAY not set")
	}
	b, err := os.ReadFile(path)
	if err != nil {
		t.Fatalf("INFRA: %v", err)
	}
	var doc replayDoc
	if err := json.Unmarshal(b, &doc); err != nil {
		t.Fatalf("INFRA: %v", err)
	}
	raw := doc.Case
	if len(raw) == 0 {
		raw = b
	}
	var c C
	if err := json.Unmarshal(raw, &c); err != nil {
		t.Fatalf("INFRA: %v", err)
	}
	st := NewStats(prop)
	for _, fd := range LoadFindings(prop) {
		if fd.Status == "open" {
			st.open[fd.ID] = true
		}
	}
	st.Strict = os.Getenv("VERIF_STRICT") != ""
	if err := safeCheck(check, c, st); err != nil {
		fmt.Printf("VIOLATION property=%s replay=%s\n  cause: %s\n", prop, path, err.Error())
		t.Fail()
		return
	}
	fmt.Printf("REPLAY-OK property=%s replay=%s\n", prop, path)
}

func writePartial(st *Stats, part *Partial, start time.Time) {
	out := os.Getenv("VERIF_OUT")
	if out == "" {
		return
	}
	part.Evals = st.Evals
	part.Classes = st.Classes
	part.Known = st.Known
	part.Samples = st.samples
	part.NonTrivial = len(st.nontriv)
	b, _ := json.Marshal(part)
	os.WriteFile(out, b, 0o644)
	// Spill the non-trivial hashes into 16 bucket files so the driver can take the
	// exact union across shards bucket by bucket.
	var bufs [16][]byte
	for h := range st.nontriv {
		k := h >> 60
		bufs[k] = binary.LittleEndian.AppendUint64(bufs[k], h)
	}
	for k := range bufs {
		os.WriteFile(fmt.Sprintf("%s.h%x", out, k), bufs[k], 0o644)
	}
}

// FuzzGen is the coverage-guided front end over the same generator and check: Go's native
// fuzzer mutates the byte stream that rapid turns into draws (rapid.MakeFuzz), so coverage
// feedback steers the structured generator. Thorough tier only; a failing case is written
// as an ordinary JSON replay file and named in the failure message.
func FuzzGen[C any](f *testing.F, prop string, gen func(*rapid.T) C, check func(C, *Stats) error) {
	open := map[string]bool{}
	for _, fd := range LoadFindings(prop) {
		if fd.Status == "open" {
			open[fd.ID] = true
		}
	}
	// starting corpus: fixed pseudo-random streams, so the first generation already holds
	// varied cases (an empty stream makes every draw minimal)
	for i := 0; i < 24; i++ {
		var b []byte
		for j := 0; len(b) < 1536; j++ {
			h := sha256.Sum256([]byte(fmt.Sprintf("%s/%d/%d", prop, i, j)))
			b = append(b, h[:]...)
		}
		f.Add(b)
	}
	f.Fuzz(rapid.MakeFuzz(func(rt *rapid.T) {
		c := gen(rt)
		st := NewStats(prop)
		st.open = open
		if err := safeCheck(check, c, st); err != nil {
			path := WriteReplay(prop, c, err.Error())
			first := err.Error()
			if i := strings.IndexByte(first, '\n'); i >= 0 {
				first = first[:i]
			}
			rt.Fatalf("FUZZ-VIOLATION property=%s replay=%s :: %s", prop, path, first)
		}
	}))
}

// InfraExit ends the process with the infrastructure status (2): the run is inconclusive,
// not a verdict on the property.
func InfraExit(msg string) {
	fmt.Println("INFRA: " + msg)
	os.Exit(2)
}
