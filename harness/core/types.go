package core

import (
	"fmt"
	"math/big"
	"os"
	"strings"

	"github.com/cockroachdb/apd/v3"
)

// Dec is the serialisable form of an apd.Decimal.
type Dec struct {
	Form  int8   `json:"form"` // 0 finite, 1 infinite, 2 sNaN, 3 NaN
	Neg   bool   `json:"neg"`
	Coeff string `json:"coeff"` // decimal digits, non-negative
	Exp   int32  `json:"exp"`
}

func (d Dec) Apd() *apd.Decimal {
	var r apd.Decimal
	r.Form = apd.Form(d.Form)
	r.Negative = d.Neg
	r.Exponent = d.Exp
	if d.Coeff != "" {
		// The same coefficient value can be held in three ways: as SetString leaves it (inline
		// up to 38 digits, on the heap from 39), as arithmetic leaves it (inline whenever it
		// fits 128 bits) and on the heap although small (what an in-place operation on a large
		// value leaves behind). Operands are spread over the three, by a function of the
		// digits alone so that a case still determines its run.
		switch ReprClass(d.Coeff) {
		case 1:
			var t apd.BigInt
			if _, ok := t.SetString(d.Coeff, 10); !ok {
				panic("bad coeff " + d.Coeff)
			}
			r.Coeff.Set(&t)
		case 2:
			if _, ok := r.Coeff.SetString(d.Coeff+sixtyZeros, 10); !ok {
				panic("bad coeff " + d.Coeff)
			}
			r.Coeff.Quo(&r.Coeff, tenTo60)
		default:
			if _, ok := r.Coeff.SetString(d.Coeff, 10); !ok {
				panic("bad coeff " + d.Coeff)
			}
		}
	}
	return &r
}

var sixtyZeros = strings.Repeat("0", 60)
var tenTo60, _ = new(apd.BigInt).SetString("1"+sixtyZeros, 10)

// ReprClass picks the representation of a coefficient: 0 as parsed, 1 as copied by Set
// (inline if it fits), 2 small-on-heap. It depends on the digits only.
func ReprClass(coeff string) int {
	if os.Getenv("VERIF_PLAIN_REPR") != "" {
		return 0
	}
	sum := 0
	for i := 0; i < len(coeff); i++ {
		sum += int(coeff[i]-'0') * (i%7 + 1)
	}
	switch sum % 6 {
	case 1:
		return 1
	case 2:
		return 2
	}
	return 0
}

func (d Dec) Big() *big.Int {
	b, ok := new(big.Int).SetString(d.Coeff, 10)
	if !ok {
		if d.Coeff == "" {
			return new(big.Int)
		}
		panic("bad coeff " + d.Coeff)
	}
	return b
}

func (d Dec) IsZero() bool { return d.Form == 0 && d.Big().Sign() == 0 }

func (d Dec) String() string {
	s := ""
	if d.Neg {
		s = "-"
	}
	switch d.Form {
	case 1:
		return fmt.Sprintf("%sInf[%s,%d]", s, d.Coeff, d.Exp)
	case 2:
		return fmt.Sprintf("%ssNaN[%s,%d]", s, d.Coeff, d.Exp)
	case 3:
		return fmt.Sprintf("%sNaN[%s,%d]", s, d.Coeff, d.Exp)
	}
	return fmt.Sprintf("%s%sE%d", s, d.Coeff, d.Exp)
}

func FromApd(a *apd.Decimal) Dec {
	return Dec{Form: int8(a.Form), Neg: a.Negative, Coeff: a.Coeff.String(), Exp: a.Exponent}
}

// Show renders every field of a decimal.
func Show(a *apd.Decimal) string {
	if a == nil {
		return "<nil>"
	}
	return fmt.Sprintf("{form=%d neg=%v coeff=%s exp=%d}", a.Form, a.Negative, a.Coeff.String(), a.Exponent)
}

// Ctx is the serialisable form of an apd.Context.
type Ctx struct {
	P        uint32 `json:"p"`
	Emax     int32  `json:"emax"`
	Emin     int32  `json:"emin"`
	Rounding string `json:"rounding"`
	Traps    uint32 `json:"traps"`
}

func (c Ctx) Apd() *apd.Context {
	return &apd.Context{Precision: c.P, MaxExponent: c.Emax, MinExponent: c.Emin,
		Rounding: apd.Rounder(c.Rounding), Traps: apd.Condition(c.Traps)}
}

func (c Ctx) String() string {
	return fmt.Sprintf("{P=%d Emax=%d Emin=%d %q traps=%#x}", c.P, c.Emax, c.Emin, c.Rounding, c.Traps)
}

// SameFields reports whether two decimals have identical form, sign, coefficient, exponent.
func SameFields(a, b *apd.Decimal) bool {
	return a.Form == b.Form && a.Negative == b.Negative && a.Exponent == b.Exponent && a.Coeff.MathBigInt().Cmp(b.Coeff.MathBigInt()) == 0
}

// Valid checks the structural validity of a decimal (C04/C07).
func Valid(a *apd.Decimal) error {
	if a.Form < apd.Finite || a.Form > apd.NaN {
		return fmt.Errorf("invalid form %d", a.Form)
	}
	if a.Coeff.MathBigInt().Sign() < 0 {
		return fmt.Errorf("negative coefficient %s", a.Coeff.String())
	}
	if a.Coeff.Sign() < 0 {
		return fmt.Errorf("coefficient reports negative sign (value %s)", a.Coeff.String())
	}
	return nil
}

// AllFlags is the set of the twelve documented condition bits.
const AllFlags = apd.SystemOverflow | apd.SystemUnderflow | apd.Overflow | apd.Underflow | apd.Inexact |
	apd.Subnormal | apd.Rounded | apd.DivisionUndefined | apd.DivisionByZero | apd.DivisionImpossible |
	apd.InvalidOperation | apd.Clamped

// FlagStr renders a condition including the system bits.
func FlagStr(c apd.Condition) string {
	names := []string{"SysOverflow", "SysUnderflow", "Overflow", "Underflow", "Inexact", "Subnormal", "Rounded",
		"DivUndefined", "DivByZero", "DivImpossible", "InvalidOp", "Clamped"}
	out := ""
	for i, n := range names {
		if c&(1<<uint(i)) != 0 {
			if out != "" {
				out += "|"
			}
			out += n
		}
	}
	if rest := c &^ AllFlags; rest != 0 {
		out += fmt.Sprintf("|unknown(%#x)", uint32(rest))
	}
	if out == "" {
		return "0"
	}
	return out
}
