package core

import (
	"fmt"
	"os"
	"runtime/debug"
	"strconv"
	"syscall"
	"time"
)

func cpuNow() time.Duration {
	var ru syscall.Rusage
	syscall.Getrusage(syscall.RUSAGE_SELF, &ru)
	return time.Duration(ru.Utime.Nano() + ru.Stime.Nano())
}

// HangBudget is the process CPU time one guarded call may consume before it is declared
// a suspected hang. Ordinary calls cost microseconds to milliseconds; the slowest
// documented inputs (exponents at the +/-100000 limits) cost up to a few seconds.
func HangBudget() time.Duration {
	b := 20 * time.Second
	if s := os.Getenv("VERIF_HANG_BUDGET_S"); s != "" {
		if n, err := strconv.Atoi(s); err == nil && n > 0 {
			b = time.Duration(n) * time.Second
		}
	}
	return b
}

type panicInfo struct {
	val   any
	stack string
}

// Guard runs f in a worker goroutine under a CPU-time watchdog. A panic in f is re-raised
// in the caller. If f consumes more than HangBudget of process CPU time the case is
// written as a replay file and the process exits with status 3 ("suspected hang"); the
// driver then confirms it in a fresh process with a larger budget before reporting it.
func Guard(st *Stats, f func()) {
	done := make(chan *panicInfo, 1)
	go func() {
		defer func() {
			if r := recover(); r != nil {
				done <- &panicInfo{r, string(debug.Stack())}
				return
			}
			done <- nil
		}()
		f()
	}()
	fast := time.NewTimer(100 * time.Millisecond)
	select {
	case p := <-done:
		fast.Stop()
		if p != nil {
			panic(fmt.Sprintf("%v\n%s", p.val, p.stack))
		}
		return
	case <-fast.C:
	}
	start := cpuNow()
	budget := HangBudget()
	tick := time.NewTicker(100 * time.Millisecond)
	defer tick.Stop()
	for {
		select {
		case p := <-done:
			if p != nil {
				panic(fmt.Sprintf("%v\n%s", p.val, p.stack))
			}
			return
		case <-tick.C:
			if used := cpuNow() - start; used > budget {
				path := "?"
				if st != nil && st.cur != nil {
					path = WriteReplay(st.Prop, st.cur, fmt.Sprintf("call did not return within %v of CPU time", budget))
				}
				prop := "?"
				if st != nil {
					prop = st.Prop
				}
				fmt.Printf("HANG-SUSPECT property=%s replay=%s cpu=%v\n", prop, path, used)
				os.Stdout.Sync()
				os.Exit(3)
			}
		}
	}
}
