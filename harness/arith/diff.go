package arith

import (
	"encoding/json"
	"fmt"
	"hash/fnv"

	"github.com/cockroachdb/apd/v3"
	"verif/harness/core"
	"verif/harness/pyref"
	"verif/harness/ref"
)

// pyOps are the operations compared with Python's decimal module. Exp/Ln/Log10/Pow are left
// out: libmpdec rounds them correctly but always half-even, apd is specified to one ulp (C12).
var pyOps = map[string]bool{"add": true, "sub": true, "mul": true, "quo": true, "quointeger": true, "rem": true,
	"sqrt": true, "abs": true, "neg": true, "round": true, "setstring": true, "quantize": true, "rtie": true, "rtiv": true, "reduce": true, "cmp": true}

// DiffOpts narrows what Differential compares.
type DiffOpts struct {
	Value bool // numeric value, sign of zero, form
	Flags bool // Inexact, Subnormal, Underflow, Overflow, DivisionByZero, invalid (any of apd's three)
}

// Differential compares an executed case with the same operation in Python's decimal module
// (libmpdec). It returns nil when the case is outside the common domain: traps set, Precision
// 0, MaxExponent < 0 or MinExponent > 0 (not allowed in Python), operands or results at the
// +/-100000 package limits, or an error return.
func Differential(c Case, o Out, opt DiffOpts, st *core.Stats) error {
	if !pyOps[c.Op] || c.Ctx.Traps != 0 || c.Ctx.P == 0 || c.Ctx.Emax < 0 || c.Ctx.Emin > 0 || o.Err != nil {
		return nil
	}
	if NearLimit(c, nil) {
		return nil
	}
	ctx := c.Ctx
	ctx.Rounding = ref.Mode(c.Ctx.Rounding)
	y := c.Y
	if !Binary(c.Op) {
		y = core.Dec{Coeff: "0"}
	}
	pyOp := c.Op
	if pyOp == "setstring" {
		pyOp = "round" // context-aware parsing of a spelling of X is the context rounding of X
	}
	a, err := pyref.Ask(pyOp, ctx, c.X, y, c.QExp)
	if err != nil {
		core.InfraExit(err.Error())
	}
	if a.Skip != "" {
		return nil
	}
	v, err := pyref.Parse(a.S)
	if err != nil {
		core.InfraExit(err.Error())
	}
	st.Class("python-differential")
	desc := func() string {
		return fmt.Sprintf("%v: got %s flags %s, Python's decimal (libmpdec) gives %s flags %s", c, core.Show(o.D), core.FlagStr(o.Res), a.S, pyFlags(a.F))
	}
	if a.F&pyref.Overflow != 0 {
		// apd overflows to an infinity of the result's sign in every rounding mode (C01 states
		// it that way); the specification returns the largest finite number in the modes that
		// round towards zero. Only the fact and the sign are compared.
		st.Class("python-differential:overflow")
		if !o.Res.Overflow() || o.D.Form != apd.Infinite || o.D.Negative != v.Neg {
			return fmt.Errorf("%s: Python reports an overflow of this sign", desc())
		}
		return nil
	}
	if (c.Op == "rtie" || c.Op == "rtiv") && v.Form == 0 && v.Coeff.Sign() != 0 && ref.NDigits(v.Coeff)+v.Exp-1 > int64(c.Ctx.Emax) {
		// apd applies the exponent range to integral results, the specification does not:
		// outside what C09 states
		return nil
	}
	if opt.Value {
		switch {
		case v.Form >= 2:
			if o.D.Form != apd.NaN && o.D.Form != apd.NaNSignaling {
				return fmt.Errorf("%s: NaN expected", desc())
			}
			if o.D.Form == apd.NaNSignaling {
				return fmt.Errorf("%s: a signaling NaN is never a result", desc())
			}
		case v.Form == 1:
			if o.D.Form != apd.Infinite || o.D.Negative != v.Neg {
				return fmt.Errorf("%s: different infinity", desc())
			}
		default:
			if o.D.Form != apd.Finite {
				return fmt.Errorf("%s: finite value expected", desc())
			}
			if ref.CmpMag(o.D.Coeff.MathBigInt(), int64(o.D.Exponent), v.Coeff, v.Exp) != 0 {
				return fmt.Errorf("%s: different value", desc())
			}
			if o.D.Negative != v.Neg {
				if c.Op == "cmp" && v.Coeff.Sign() == 0 {
					break // the sign of a zero comparison result is not part of any statement
				}
				return fmt.Errorf("%s: different sign", desc())
			}
		}
	}
	if opt.Flags {
		got := 0
		for _, m := range []struct {
			a apd.Condition
			p int
		}{{apd.Inexact, pyref.Inexact}, {apd.Subnormal, pyref.Subnormal}, {apd.Underflow, pyref.Underflow}, {apd.Overflow, pyref.Overflow},
			{apd.DivisionByZero, pyref.DivisionByZero}, {apd.InvalidOperation | apd.DivisionUndefined | apd.DivisionImpossible, pyref.Invalid}} {
			if o.Res&m.a != 0 {
				got |= m.p
			}
		}
		want := a.F & (pyref.Inexact | pyref.Subnormal | pyref.Underflow | pyref.Overflow | pyref.DivisionByZero | pyref.Invalid)
		if c.Op == "quantize" || c.Op == "rtie" || c.Op == "rtiv" {
			// Subnormal is not part of the statement for these (C02, C09)
			got &^= pyref.Subnormal
			want &^= pyref.Subnormal
		}
		if got != want {
			return fmt.Errorf("%s: different conditions", desc())
		}
	}
	return nil
}

func pyFlags(f int) string {
	names := []string{"Inexact", "Rounded", "Subnormal", "Underflow", "Overflow", "DivByZero", "InvalidOp", "Clamped"}
	s := ""
	for i, n := range names {
		if f&(1<<uint(i)) != 0 {
			if s != "" {
				s += "|"
			}
			s += n
		}
	}
	if s == "" {
		return "0"
	}
	return s
}

// DiffExec executes c once more and compares it with Python (one case in n, chosen by a hash
// of the case so that the choice is a function of the case alone).
func DiffExec(c Case, opt DiffOpts, n uint64, st *core.Stats) error {
	if !pyOps[c.Op] {
		return nil
	}
	if n > 1 {
		b, _ := json.Marshal(c)
		h := fnv.New64a()
		h.Write(b)
		if h.Sum64()%n != 0 {
			return nil
		}
	}
	var o Out
	core.Guard(st, func() { o = Exec(c) })
	return Differential(c, o, opt, st)
}

// WithDifferential wraps a model check: a case the model accepted is also compared with Python.
func WithDifferential(model func(Case, *core.Stats) error, opt DiffOpts, n uint64) func(Case, *core.Stats) error {
	return func(c Case, st *core.Stats) error {
		if err := model(c, st); err != nil {
			return err
		}
		return DiffExec(c, opt, n, st)
	}
}
