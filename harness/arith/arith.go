// Package arith is the shared case type, generator, executor and reference dispatcher for
// the properties about rounding arithmetic (C01 C02 C07 C09 C10 C20).
package arith

import (
	"fmt"
	"math/big"
	"strings"

	"github.com/cockroachdb/apd/v3"
	"pgregory.net/rapid"
	"verif/harness/core"
	"verif/harness/gen"
	"verif/harness/ref"
)

// Case is one call of a Context operation.
type Case struct {
	Op   string   `json:"op"`
	Ctx  core.Ctx `json:"ctx"`
	X    core.Dec `json:"x"`
	Y    core.Dec `json:"y"`
	QExp int32    `json:"qexp,omitempty"` // target exponent of quantize
	Str  string   `json:"str,omitempty"`  // spelling of X for setstring
	Note string   `json:"note,omitempty"` // free-form class marker set by a generator
}

func (c Case) String() string {
	s := fmt.Sprintf("%s ctx=%v x=%v", c.Op, c.Ctx, c.X)
	if Binary(c.Op) {
		s += fmt.Sprintf(" y=%v", c.Y)
	}
	if c.Op == "quantize" {
		s += fmt.Sprintf(" qexp=%d", c.QExp)
	}
	if c.Op == "setstring" {
		s += fmt.Sprintf(" str=%q", c.Str)
	}
	return s
}

func Binary(op string) bool {
	switch op {
	case "add", "sub", "mul", "quo", "quointeger", "rem", "pow", "cmp":
		return true
	}
	return false
}

// Out is what one call returned.
type Out struct {
	D   *apd.Decimal
	Res apd.Condition
	Err error
	N   int // Reduce's count
}

// Call invokes op on ctx with explicit destination and operands (used for aliasing).
func Call(op string, ctx *apd.Context, d, x, y *apd.Decimal, qexp int32, str string) (o Out) {
	o.D = d
	switch op {
	case "add":
		o.Res, o.Err = ctx.Add(d, x, y)
	case "sub":
		o.Res, o.Err = ctx.Sub(d, x, y)
	case "mul":
		o.Res, o.Err = ctx.Mul(d, x, y)
	case "quo":
		o.Res, o.Err = ctx.Quo(d, x, y)
	case "quointeger":
		o.Res, o.Err = ctx.QuoInteger(d, x, y)
	case "rem":
		o.Res, o.Err = ctx.Rem(d, x, y)
	case "pow":
		o.Res, o.Err = ctx.Pow(d, x, y)
	case "cmp":
		o.Res, o.Err = ctx.Cmp(d, x, y)
	case "abs":
		o.Res, o.Err = ctx.Abs(d, x)
	case "neg":
		o.Res, o.Err = ctx.Neg(d, x)
	case "round":
		o.Res, o.Err = ctx.Round(d, x)
	case "quantize":
		o.Res, o.Err = ctx.Quantize(d, x, qexp)
	case "rtie":
		o.Res, o.Err = ctx.RoundToIntegralExact(d, x)
	case "rtiv":
		o.Res, o.Err = ctx.RoundToIntegralValue(d, x)
	case "ceil":
		o.Res, o.Err = ctx.Ceil(d, x)
	case "floor":
		o.Res, o.Err = ctx.Floor(d, x)
	case "reduce":
		o.N, o.Res, o.Err = ctx.Reduce(d, x)
	case "sqrt":
		o.Res, o.Err = ctx.Sqrt(d, x)
	case "cbrt":
		o.Res, o.Err = ctx.Cbrt(d, x)
	case "exp":
		o.Res, o.Err = ctx.Exp(d, x)
	case "ln":
		o.Res, o.Err = ctx.Ln(d, x)
	case "log10":
		o.Res, o.Err = ctx.Log10(d, x)
	case "setstring":
		var dd *apd.Decimal
		dd, o.Res, o.Err = ctx.SetString(d, str)
		if o.Err == nil && dd != d {
			o.Err = fmt.Errorf("SetString returned a different pointer")
		}
	default:
		panic("arith.Call: unknown op " + op)
	}
	return o
}

// Exec runs the case with a fresh destination and fresh operands.
func Exec(c Case) Out {
	return Call(c.Op, c.Ctx.Apd(), new(apd.Decimal), c.X.Apd(), c.Y.Apd(), c.QExp, c.Str)
}

// Spell renders a finite decimal in one of several grammatical spellings, all denoting
// exactly the value coeff*10^exp with the same coefficient digits.
func Spell(t *rapid.T, d core.Dec) string {
	var b strings.Builder
	if d.Neg {
		b.WriteByte('-')
	} else if rapid.IntRange(0, 3).Draw(t, "plus") == 0 {
		b.WriteByte('+')
	}
	digits := d.Coeff
	lead := rapid.IntRange(0, 3).Draw(t, "lead0")
	if lead == 3 {
		digits = strings.Repeat("0", rapid.IntRange(1, 3).Draw(t, "nlead")) + digits
	}
	// place a point k digits from the right (k in 0..len), compensate in the exponent
	k := 0
	if rapid.Bool().Draw(t, "point") {
		k = rapid.IntRange(0, len(digits)).Draw(t, "pointpos")
		b.WriteString(digits[:len(digits)-k])
		b.WriteByte('.')
		b.WriteString(digits[len(digits)-k:])
	} else {
		b.WriteString(digits)
	}
	e := int64(d.Exp) + int64(k)
	if e != 0 || rapid.Bool().Draw(t, "e0") {
		if rapid.Bool().Draw(t, "upper") {
			b.WriteByte('E')
		} else {
			b.WriteByte('e')
		}
		if e >= 0 && rapid.Bool().Draw(t, "eplus") {
			b.WriteByte('+')
		}
		fmt.Fprintf(&b, "%d", e)
	}
	return b.String()
}

// Gen returns a generator of cases over ops. maxP bounds the precision; with p0 the
// context sometimes has Precision 0 for the operations that document behaviour for it.
func Gen(ops []string, maxP int, p0 bool) func(*rapid.T) Case {
	return func(t *rapid.T) Case {
		var c Case
		c.Op = ops[gen.Pick(t, len(ops), "op")]
		c.Ctx = gen.Context(t, maxP)
		if p0 && P0Op(c.Op) && gen.Pick(t, 10, "p0") == 0 {
			c.Ctx.P = 0
		}
		FillOperands(t, &c)
		return c
	}
}

// P0Op lists the operations for which C01 states a Precision-0 behaviour.
func P0Op(op string) bool {
	switch op {
	case "add", "sub", "mul", "abs", "neg", "round", "reduce":
		return true
	}
	return false
}

// FillOperands draws operands for c.Op under c.Ctx (finite operands; zero sometimes).
func FillOperands(t *rapid.T, c *Case) {
	ctx := c.Ctx
	if ctx.P == 0 {
		ctx.P = 9 // shape operands as for a small precision
	}
	c.Y = core.Dec{Coeff: "0"}
	switch c.Op {
	case "add", "sub", "mul":
		c.X, c.Y = gen.Pair(t, ctx, c.Op)
		if gen.Pick(t, 20, "zeroop") == 0 {
			c.Y = gen.Zero(t, ctx, "yz")
		}
		if c.Op == "mul" && c.Ctx.P != 0 && gen.Pick(t, 20, "mulabove") == 1 {
			// a product of exactly Precision+1 (or Precision) digits a hair above a power of ten,
			// at a Precision anywhere in 2..400: the smallest bit length a number of that many
			// digits can have, which a digit estimate taken from the bit length gets wrong at
			// isolated digit counts (205, 264, 351, ...)
			p := 2 + gen.Pick(t, 399, "mulabp") // uniform
			c.Ctx.P = uint32(p)
			target := p + 1 - gen.Pick(t, 4, "mulabd")/3 // mostly Precision+1
			nx := rapid.IntRange(1, target-1).Draw(t, "mulabnx")
			xb, _ := new(big.Int).SetString(gen.DigitsN(t, nx, 9, "mulabx"), 10)
			if xb.Sign() == 0 {
				xb.SetInt64(3)
			}
			yb := new(big.Int).Add(new(big.Int).Quo(ref.Pow10(int64(target-1)), xb), big.NewInt(int64(rapid.IntRange(1, 3).Draw(t, "mulabe"))))
			c.X = gen.FromBig(xb, int64(rapid.IntRange(-5, 5).Draw(t, "mulabxe")))
			c.Y = gen.FromBig(yb, int64(rapid.IntRange(-5, 5).Draw(t, "mulabye")))
			c.X.Neg, c.Y.Neg = rapid.Bool().Draw(t, "mulabxn"), rapid.Bool().Draw(t, "mulabyn")
		}
	case "quo":
		c.X, c.Y = gen.Pair(t, ctx, "quo")
		if c.Y.Coeff == "0" {
			c.Y.Coeff = "7"
		}
		if gen.Pick(t, 30, "zerox") == 0 {
			c.X = gen.Zero(t, ctx, "xz")
		}
	case "quointeger", "rem":
		c.X, c.Y = DivPair(t, ctx)
		if gen.Pick(t, 40, "wordq") == 1 {
			// the digit limit of the quotient meeting a machine-word limit of the dividend: 2^64
			// has 20 digits and 2^128 has 39, so at Precision 19 (38) a dividend of one more
			// digit may still fit one (two) words while its quotient by 1, 2 or 3 does not fit
			// the precision
			bits := []uint{64, 128, 256}[gen.Pick(t, 3, "wqb")]
			top := new(big.Int).Lsh(big.NewInt(1), bits)
			nd := len(top.String())
			lo := ref.Pow10(int64(nd - 1))
			span := new(big.Int).Sub(top, lo)
			v, _ := new(big.Int).SetString(gen.DigitsN(t, nd+3, 9, "wqv"), 10)
			v.Mod(v, span).Add(v, lo) // nd digits, below 2^bits
			c.Ctx.P = uint32(nd - 1 + rapid.IntRange(-1, 1).Draw(t, "wqp"))
			c.X = gen.FromBig(v, 0)
			c.X.Neg = rapid.Bool().Draw(t, "wqxn")
			c.Y = core.Dec{Coeff: fmt.Sprint(rapid.IntRange(1, 12).Draw(t, "wqy")), Neg: rapid.Bool().Draw(t, "wqyn")}
			if sh := rapid.IntRange(-3, 3).Draw(t, "wqs"); sh != 0 {
				c.X.Exp, c.Y.Exp = int32(sh), int32(sh) // the same pair at another common exponent
			}
			if rapid.Bool().Draw(t, "wqfrac") { // 1.5, 2.5 ... : the dividend is scaled by ten first
				c.Y.Coeff += "5"
				c.Y.Exp--
			}
		}
	case "quantize":
		c.X = gen.Finite(t, ctx, "x")
		c.QExp = QuantExp(t, ctx, c.X)
		if gen.Pick(t, 200, "qfargap") == 0 {
			// operand at the bottom of the exponent range, target above it by more than 100000
			// (both legal): every digit is dropped, nothing needs to be rejected
			c.X.Exp = -gen.Limit + int32(rapid.IntRange(0, 8).Draw(t, "qfx"))
			hi := int(ctx.Emax)
			if hi > 40 {
				hi = 40
			}
			if hi < 1 {
				hi = 1
			}
			c.QExp = int32(rapid.IntRange(1, hi).Draw(t, "qft"))
		}
		if ctx.Emin <= -90000 && gen.Pick(t, 40, "qgaplimit") == 1 {
			// a target exactly 100000 (+/-1) below the operand's exponent, both legal: the
			// rescaling needs the largest power of ten the package supports; a zero or
			// one-digit coefficient keeps the result within any precision
			c.X = core.Dec{Coeff: []string{"0", "0", "7"}[gen.Pick(t, 3, "qglc")], Neg: rapid.Bool().Draw(t, "qglneg")}
			c.X.Exp = int32(rapid.IntRange(0, int(ctx.Emax)).Draw(t, "qglx"))
			if c.X.Exp > gen.Limit-1 {
				c.X.Exp = gen.Limit - 1
			}
			c.QExp = c.X.Exp - gen.Limit + int32(rapid.IntRange(-1, 1).Draw(t, "qgld"))
		}
	case "rtie", "rtiv", "ceil", "floor":
		c.X = IntegralOperand(t, ctx)
	case "reduce":
		c.X = ReduceOperand(t, ctx)
	case "setstring":
		c.X = gen.Finite(t, ctx, "x")
		c.Str = Spell(t, c.X)
	case "pow":
		c.X, c.Y = gen.PowArgs(t, ctx)
	case "exp":
		c.X = gen.ExpArg(t, ctx, "x")
	case "ln", "log10":
		c.X = gen.LogArg(t, ctx, 40, "x")
	case "sqrt":
		c.X = gen.RootArg(t, ctx, 2, "x")
	case "cbrt":
		c.X = gen.RootArg(t, ctx, 3, "x")
	default: // unary
		c.X = gen.Finite(t, ctx, "x")
		if gen.Pick(t, 30, "zerox") == 0 {
			c.X = gen.Zero(t, ctx, "xz")
		}
	}
}

// DivPair draws operands for QuoInteger/Rem: exponent gaps mostly within +/-(2P+4), digit
// counts 1..2P+5, with |x|<|y|, exact multiples and quotients of exactly P and P+1 digits.
func DivPair(t *rapid.T, ctx core.Ctx) (x, y core.Dec) {
	p := int(ctx.P)
	y = gen.NonZero(t, ctx, "y")
	switch gen.Pick(t, 7, "divk") {
	case 6: // exponent gap beyond the 128-entry power table, quotient of P-1..P+1 digits
		g := rapid.IntRange(129, 300).Draw(t, "gap")
		x = core.Dec{Coeff: gen.Digits(t, 5, "xs"), Neg: rapid.Bool().Draw(t, "xneg")}
		if x.Coeff == "0" {
			x.Coeff = "2"
		}
		ny := len(x.Coeff) + g - p + rapid.IntRange(-1, 1).Draw(t, "qd")
		if ny < 1 {
			ny = 1
		}
		y.Coeff = gen.DigitsN(t, ny, gen.Pick(t, 10, "ykind"), "ylong")
		if y.Coeff == "0" {
			y.Coeff = "7"
		}
		y.Exp = int32(rapid.IntRange(-20, 20).Draw(t, "ye"))
		x.Exp = y.Exp + int32(g)
		if gen.Pick(t, 3, "finer") == 0 {
			// the other way round: x is (a neighbour of) y written g places finer
			y.Coeff = gen.Digits(t, p+2, "ysmall")
			if y.Coeff == "0" {
				y.Coeff = "5"
			}
			xv := new(big.Int).Mul(y.Big(), ref.Pow10(int64(g)))
			xv.Add(xv, big.NewInt(int64(rapid.IntRange(-1, 1).Draw(t, "eqd"))))
			x = gen.FromBig(xv, int64(y.Exp)-int64(g))
			x.Neg = rapid.Bool().Draw(t, "xneg2")
		}
	case 0, 1: // independent
		x = gen.Finite(t, ctx, "x")
		x.Exp = clamp32(int64(y.Exp) + int64(rapid.IntRange(-2*p-4, 2*p+4).Draw(t, "gap")))
	case 2: // |x| < |y|
		x = gen.Finite(t, ctx, "x")
		x.Exp = clamp32(int64(y.Exp) - int64(len(x.Coeff)) - int64(rapid.IntRange(0, 3).Draw(t, "below")))
	default: // x = q*y + r with q of P-1..P+1 digits, r in {0, small, y-1}
		y.Coeff = gen.Digits(t, p+3, "ys")
		if y.Coeff == "0" {
			y.Coeff = "9"
		}
		ql := p + rapid.IntRange(-1, 1).Draw(t, "qd")
		if ql < 1 {
			ql = 1
		}
		q, _ := new(big.Int).SetString(gen.DigitsN(t, ql, gen.Pick(t, 10, "qkind"), "q"), 10)
		yb := y.Big()
		xv := new(big.Int).Mul(q, yb)
		switch gen.Pick(t, 4, "rk") {
		case 1:
			xv.Add(xv, big.NewInt(1))
		case 2:
			xv.Add(xv, new(big.Int).Sub(yb, big.NewInt(1)))
		case 3:
			r, _ := new(big.Int).SetString(gen.Digits(t, len(y.Coeff), "r"), 10)
			if r.Cmp(yb) < 0 {
				xv.Add(xv, r)
			}
		}
		x = gen.FromBig(xv, int64(y.Exp))
		// sometimes express x with a different exponent (shift digits between coefficient and exponent)
		if s := rapid.IntRange(0, 3).Draw(t, "shift"); s > 0 {
			xv.Mul(xv, ref.Pow10(int64(s)))
			x = gen.FromBig(xv, int64(y.Exp)-int64(s))
		}
		x.Neg = rapid.Bool().Draw(t, "xneg")
	}
	return x, y
}

func clamp32(e int64) int32 {
	if e > gen.Limit-400 {
		e = gen.Limit - 400
	}
	if e < -gen.Limit {
		e = -gen.Limit
	}
	return int32(e)
}

// QuantExp draws a target exponent: x.Exp + delta with delta in [-P-3, 2P+6], or uniform
// in [Etiny-2, Emax+2].
func QuantExp(t *rapid.T, ctx core.Ctx, x core.Dec) int32 {
	p := int(ctx.P)
	if ctx.Emax >= 90000 && gen.Pick(t, 3, "qfarabove") == 0 {
		// both exponents legal, the target more than 100000 above the operand's
		return int32(rapid.IntRange(1000, 90000).Draw(t, "qfa"))
	}
	if gen.Pick(t, 60, "qextreme") == 0 { // the ends of the int32 argument range
		return []int32{2147483647, -2147483648, 2147483646, -2147483647, 2147383648, -2147383648}[gen.Pick(t, 6, "qextv")]
	}
	if gen.Pick(t, 5, "qk") == 0 {
		etiny := int(ctx.Emin) - p + 1
		lo, hi := etiny-2, int(ctx.Emax)+2
		if hi-lo > 4000 { // keep the cost bounded for the package-limit contexts
			if rapid.Bool().Draw(t, "qside") {
				hi = lo + 40
			} else {
				lo = hi - 40
			}
		}
		return int32(rapid.IntRange(lo, hi).Draw(t, "qexp"))
	}
	nd := len(x.Coeff)
	if gen.Pick(t, 6, "qatlimit") == 1 {
		// the rescaled coefficient has exactly Precision digits, one fewer or one more: the
		// boundary of "needs more than Precision digits" (for large precisions the rescaling
		// then runs over more than a hundred places)
		return clamp32(int64(x.Exp) + int64(nd-p+rapid.IntRange(-1, 1).Draw(t, "qal")))
	}
	d := rapid.IntRange(-p-3, nd+3).Draw(t, "qdelta")
	return clamp32(int64(x.Exp) + int64(d))
}

// IntegralOperand draws operands for RoundToIntegral*/Ceil/Floor: exponent in
// [-digits-3, 3] so the point falls inside, at either end of, and beyond the coefficient.
func IntegralOperand(t *rapid.T, ctx core.Ctx) core.Dec {
	x := gen.Finite(t, ctx, "x")
	nd := len(x.Coeff)
	x.Exp = int32(rapid.IntRange(-nd-3, 3).Draw(t, "iexp"))
	return x
}

// ReduceOperand draws coefficients with 0..P+5 trailing zeros, zeros of any exponent, and
// all-nines coefficients that carry when rounded.
func ReduceOperand(t *rapid.T, ctx core.Ctx) core.Dec {
	x := gen.Finite(t, ctx, "x")
	switch gen.Pick(t, 6, "rk") {
	case 0:
		return gen.Zero(t, ctx, "xz")
	case 1, 2, 3:
		z := rapid.IntRange(0, int(ctx.P)+5).Draw(t, "tz")
		if gen.Pick(t, 10, "manyzeros") == 0 { // hundreds of trailing zeros (beyond the power-of-ten table)
			z = rapid.IntRange(100, 1300).Draw(t, "tzbig")
		}
		if x.Coeff != "0" {
			x.Coeff += strings.Repeat("0", z)
			x.Exp = gen.Exponent(t, ctx, int64(len(x.Coeff)), "xe")
		}
	}
	return x
}

// Expect is the reference outcome of a case.
type Expect struct {
	Defined bool          // the reference defines the outcome
	NaN     bool          // result is NaN
	R       ref.Result    // otherwise this value (Form finite/infinite)
	Cond    apd.Condition // flags that are a function of the exact result
	Exact   ref.Exact     // the exact value (when meaningful)
	HasEx   bool
	ExpSet  bool  // the result exponent is prescribed
	ExpWant int64 // prescribed exponent
	Limit   bool  // close to the package limits: a clean error is acceptable
	Note    string
}

// NearLimit reports whether the case touches the +/-100000 package limits, where apd is
// documented to return errors (and to be slow) instead of results.
func NearLimit(c Case, ex *ref.Exact) bool {
	const edge = gen.Limit - 2000
	chk := func(d core.Dec) bool {
		e := int64(d.Exp)
		adj := e + int64(len(d.Coeff)) - 1
		return e > edge || e < -edge || adj > edge || adj < -edge
	}
	if chk(c.X) {
		return true
	}
	if Binary(c.Op) {
		if chk(c.Y) {
			return true
		}
		gap := int64(c.X.Exp) - int64(c.Y.Exp)
		if gap > edge || gap < -edge {
			return true
		}
	}
	if c.Op == "quantize" {
		// only a target far *below* the operand's exponent needs a power of ten beyond the
		// package limit; a target far above it merely drops every digit
		// (exact thresholds: the package limit applies to the target and to the rescaling gap)
		gap := int64(c.QExp) - int64(c.X.Exp)
		if gap < -gen.Limit || int64(c.QExp) > gen.Limit || int64(c.QExp) < -gen.Limit {
			return true
		}
	}
	if ex != nil {
		if ex.Exp > edge || ex.Exp < -edge {
			return true
		}
		if !ex.IsZero() {
			if adj := ref.AdjExp(*ex); adj > edge || adj < -edge {
				return true
			}
		}
	}
	return false
}

// QuantizeMayReject reports whether Quantize may turn the call away with NaN and
// InvalidOperation for package-limit reasons: the target exponent itself is at the
// +/-100000 limits, or it lies so far below the operand's exponent that the rescaling would
// need a power of ten beyond the limit. A target above the operand's exponent only drops
// digits and is never a reason.
func QuantizeMayReject(c Case) bool {
	gap := int64(c.QExp) - int64(c.X.Exp)
	return gap < -gen.Limit || int64(c.QExp) > gen.Limit || int64(c.QExp) < -gen.Limit
}

// Reference computes the expected outcome for the operations that have an exact-result
// model. Operands must be finite (special values belong to C08).
func Reference(c Case) Expect {
	var e Expect
	if c.X.Form != 0 || (Binary(c.Op) && c.Y.Form != 0) {
		return e
	}
	ctx := c.Ctx
	setExact := func(ex ref.Exact) {
		e.Exact, e.HasEx = ex, true
		e.Limit = NearLimit(c, &ex)
	}
	value := func(ex ref.Exact) {
		setExact(ex)
		e.Defined = true
		if ctx.P == 0 {
			// rounding disabled: exact result, subject only to the exponent limits
			e.R = ref.Result{Form: apd.Finite, Neg: ex.Neg, Coeff: ex.Num, Exp: ex.Exp}
			if !ex.IsZero() {
				adj := ref.AdjExp(ex)
				if adj > int64(ctx.Emax) {
					// above the range the exponent limit applies as it does after any rounding:
					// the result overflows
					c2 := ctx
					c2.P = uint32(ref.NDigits(ex.Num))
					if ex.Den.Cmp(big.NewInt(1)) == 0 && c2.P > 0 {
						e.R = ref.Round(ex, c2)
						e.Cond = e.R.Flags()
						return
					}
					e.Defined = false
				} else if adj < int64(ctx.Emin) {
					e.Defined = false
					e.Note = "P=0 below the exponent range"
				}
			}
			return
		}
		e.R = ref.RoundOrZero(ex, ctx)
		e.Cond = e.R.Flags()
	}
	switch c.Op {
	case "add", "sub":
		value(ref.Add(c.X, c.Y, c.Op == "sub", ctx.Rounding))
	case "mul":
		value(ref.Mul(c.X, c.Y))
	case "quo":
		if c.Y.IsZero() {
			divZero(&e, c)
			return e
		}
		if ctx.P == 0 {
			return e
		}
		value(ref.Quo(c.X, c.Y))
	case "abs":
		ex := ref.FromDec(c.X)
		ex.Neg = false
		value(ex)
	case "neg":
		ex := ref.FromDec(c.X)
		ex.Neg = !ex.Neg
		if ex.IsZero() {
			// Neg is 0 - x: the exact zero difference of +0 and +0 is +0, except under floor (-0);
			// 0 - (-0) = 0 + 0 = +0 in every mode
			ex.Neg = ref.Mode(ctx.Rounding) == "floor" && !c.X.Neg
		}
		value(ex)
	case "round", "setstring":
		value(ref.FromDec(c.X))
	case "reduce":
		value(ref.FromDec(c.X))
	case "quointeger", "rem":
		if c.Y.IsZero() {
			divZero(&e, c)
			return e
		}
		if ctx.P == 0 {
			return e
		}
		q, r, ee := ref.DivInt(c.X, c.Y)
		e.Defined = true
		if ref.NDigits(q) > int64(ctx.P) {
			e.NaN = true
			e.Cond = apd.DivisionImpossible
			e.Limit = NearLimit(c, nil)
			return e
		}
		if c.Op == "quointeger" {
			ex := ref.Exact{Neg: c.X.Neg != c.Y.Neg, Num: q, Den: big.NewInt(1), Exp: 0}
			setExact(ex)
			e.R = ref.Result{Form: apd.Finite, Neg: ex.Neg, Coeff: q, Exp: 0}
			e.ExpSet, e.ExpWant = true, 0
			if q.Sign() != 0 && ref.NDigits(q)-1 > int64(ctx.Emax) {
				// an integer of at most Precision digits can still lie above the context's
				// range (MaxExponent < Precision-1): it overflows like any other result
				e.R = ref.Round(ex, ctx)
				e.Cond = e.R.Flags() & (apd.Overflow | apd.Inexact)
				e.ExpSet = false
			}
			return e
		}
		ex := ref.Exact{Neg: c.X.Neg, Num: r, Den: big.NewInt(1), Exp: ee}
		setExact(ex)
		e.R = ref.RoundOrZero(ex, ctx)
		e.Cond = e.R.Flags()
	case "quantize":
		if ctx.P == 0 {
			return e
		}
		q := ref.Quantize(c.X, int64(c.QExp), ctx, true)
		e.Defined = true
		e.Limit = NearLimit(c, nil)
		if q.Invalid {
			e.NaN = true
			e.Cond = apd.InvalidOperation
			return e
		}
		e.R = ref.Result{Form: apd.Finite, Neg: q.Neg, Coeff: q.N, Exp: q.E, Inexact: q.Inexact, Dropped: q.Rounded}
		if q.Inexact {
			e.Cond = apd.Inexact
		}
		e.ExpSet, e.ExpWant = true, q.E
	case "rtie", "rtiv":
		e.Limit = NearLimit(c, nil)
		if c.X.Exp >= 0 {
			e.Defined = true
			e.R = ref.Result{Form: apd.Finite, Neg: c.X.Neg, Coeff: c.X.Big(), Exp: int64(c.X.Exp)}
			return e
		}
		q := ref.Quantize(c.X, 0, ctx, false)
		if q.N.Sign() != 0 && ref.NDigits(q.N)-1 > int64(ctx.Emax) {
			return e // outside the stated quantifier
		}
		e.Defined = true
		e.R = ref.Result{Form: apd.Finite, Neg: q.Neg, Coeff: q.N, Exp: 0, Inexact: q.Inexact, Dropped: q.Rounded}
		if q.Inexact && c.Op == "rtie" {
			e.Cond = apd.Inexact
		}
		e.ExpSet, e.ExpWant = true, 0
	case "ceil", "floor":
		// exact ceiling / floor as an integer; defined when the integer part fits P
		n, inexact := ref.DivRound(c.X.Big(), big.NewInt(1), int64(c.X.Exp), 0, "down", false)
		if ctx.P > 0 && ref.NDigits(n)+1 > int64(ctx.P) && n.Sign() != 0 {
			// the integer part (or the integer part plus one) may not fit: outside the quantifier
			if ref.NDigits(new(big.Int).Add(n, big.NewInt(1))) > int64(ctx.P) {
				return e
			}
		}
		if inexact && (c.Op == "ceil") != c.X.Neg {
			n.Add(n, big.NewInt(1)) // away from zero
		}
		if n.Sign() != 0 && ref.NDigits(n)-1 > int64(ctx.Emax) {
			return e
		}
		e.Defined = true
		e.Limit = NearLimit(c, nil)
		e.R = ref.Result{Form: apd.Finite, Neg: c.X.Neg, Coeff: n, Exp: 0, Inexact: inexact}
	case "sqrt":
		if c.X.Neg && !c.X.IsZero() {
			e.Defined, e.NaN, e.Cond = true, true, apd.InvalidOperation
			return e
		}
		if ctx.P == 0 {
			return e
		}
		e.Defined = true
		if c.X.IsZero() {
			e.R = ref.ZeroResult(c.X.Neg)
			return e
		}
		ex, _ := ref.SqrtExact(c.X, int64(ctx.P))
		setExact(ex)
		he := ctx
		he.Rounding = "half_even"
		e.R = ref.Round(ex, he)
		e.Cond = e.R.Flags()
	}
	return e
}

// divZero fills the reference outcome of a division by a zero divisor.
func divZero(e *Expect, c Case) {
	e.Defined = true
	switch {
	case c.X.IsZero():
		e.NaN, e.Cond = true, apd.DivisionUndefined
	case c.Op == "rem":
		e.NaN, e.Cond = true, apd.InvalidOperation
	default:
		e.R = ref.Result{Form: apd.Infinite, Neg: c.X.Neg != c.Y.Neg}
		e.Cond = apd.DivisionByZero
	}
}
