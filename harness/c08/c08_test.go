// C08: special values follow the decimal arithmetic rules in every operation. Oracle: a
// finite specification table transcribed from the General Decimal Arithmetic
// specification (NaN selection and signalling, infinities, zero divisors, roots and
// logarithms of negatives and zeros, the power table, signs of zero results), enumerated
// exhaustively over (operation x operand class x operand class) in every run and
// instantiated with generated representatives and contexts.
package c08

import (
	"fmt"
	"math/big"
	"testing"

	"github.com/cockroachdb/apd/v3"
	"pgregory.net/rapid"
	"verif/harness/arith"
	"verif/harness/core"
	"verif/harness/gen"
	"verif/harness/ref"
)

type Case struct {
	arith.Case
	CX string `json:"cx"` // operand classes
	CY string `json:"cy"`
}

var classes = []string{"+NaN", "-NaN", "+sNaN", "-sNaN", "+Inf", "-Inf", "junk+Inf", "junk-Inf", "+0", "-0", "+0e", "-0e",
	"+frac", "-frac", "+one", "-one", "+odd", "-odd", "+even", "-even", "+evenE", "-oddE", "+oddE", "-evenE", "+nonint", "-nonint"}

var unary = []string{"abs", "neg", "round", "reduce", "rtie", "rtiv", "ceil", "floor", "quantize", "sqrt", "cbrt", "ln", "log10", "exp"}
var binary = []string{"add", "sub", "mul", "quo", "quointeger", "rem", "pow", "cmp"}

// rep builds a representative of a class; k varies it deterministically.
func rep(class string, k int) core.Dec {
	neg := class[0] == '-'
	d := core.Dec{Coeff: "0", Neg: neg}
	switch class[1:] {
	case "NaN":
		d.Form = 3
		// the coefficient and exponent fields of a NaN mean nothing, but they exist (exported
		// fields; a payload parser could fill them): no operation may be steered by them
		d.Exp = int32([]int{0, 3, -7, 0, 40}[k%5])
		d.Coeff = []string{"0", "1", "0", "12345678901234567890123456789012345678901", "7"}[k%5]
	case "sNaN":
		d.Form = 2
		d.Exp = int32([]int{0, 0, 5, -2, 1}[k%5])
		d.Coeff = []string{"0", "9", "1", "0", "340282366920938463463374607431768211457"}[k%5]
	case "Inf":
		d.Form = 1
		if class[0] == 'j' {
			d.Form = 1
		}
	case "0":
	case "0e":
		d.Exp = int32([]int{-5, 3, -1, 7, 40, -40, 1}[k%7])
	case "frac":
		d.Coeff, d.Exp = []string{"5", "25", "999", "1"}[k%4], int32(-3-k%3)
	case "one":
		d.Coeff, d.Exp = []string{"1", "10", "1000"}[k%3], int32(-[]int{0, 1, 3}[k%3])
	case "odd":
		// small odd integers and odd integers beyond the 32-, 63-, 64- and 128-bit widths
		d.Coeff = []string{"3", "7", "21", "5", "99999", "4294967297", "9223372036854775807", "9223372036854775809", "18446744073709551617",
			"123456789012345678901", "340282366920938463463374607431768211457"}[k%11]
	case "even":
		d.Coeff = []string{"2", "4", "10", "128", "30", "4294967296", "9223372036854775808", "18446744073709551616", "123456789012345678902"}[k%9]
	case "evenE": // even integer written with a positive exponent and an odd coefficient
		d.Coeff, d.Exp = []string{"1", "3", "7"}[k%3], int32(1+k%3)
	case "oddE": // odd integer written with trailing fraction zeros
		d.Coeff, d.Exp = []string{"30", "700", "10"}[k%3], -int32([]int{1, 2, 1}[k%3])
		if k%3 == 2 {
			d.Coeff = "110"
		}
	case "nonint":
		d.Coeff, d.Exp = []string{"25", "15", "33", "123456789"}[k%4], -1
	}
	if class == "junk+Inf" || class == "junk-Inf" {
		d.Form, d.Neg = 1, class == "junk-Inf"
		d.Coeff, d.Exp = []string{"9999", "1", "123456789012345678901234567890123456789012"}[k%3], int32([]int{7, -3, 99}[k%3])
	}
	return d
}

type cls struct {
	nan, snan, inf, zero, neg bool
	isInt, odd, one, lt1      bool // finite non-zero only
}

func classify(d core.Dec) cls {
	c := cls{neg: d.Neg}
	switch d.Form {
	case 3:
		c.nan = true
		return c
	case 2:
		c.nan, c.snan = true, true
		return c
	case 1:
		c.inf = true
		return c
	}
	v := d.Big()
	if v.Sign() == 0 {
		c.zero = true
		return c
	}
	// integer test and parity of |value|
	if d.Exp >= 0 {
		c.isInt = true
		c.odd = d.Exp == 0 && v.Bit(0) == 1
	} else {
		q, r := new(big.Int).QuoRem(v, ref.Pow10(-int64(d.Exp)), new(big.Int))
		c.isInt = r.Sign() == 0
		c.odd = c.isInt && q.Bit(0) == 1
	}
	cmp1 := ref.CmpMag(v, int64(d.Exp), big.NewInt(1), 0)
	c.one = cmp1 == 0
	c.lt1 = cmp1 < 0
	return c
}

type expect struct {
	kind string // nan | inf | zero | one | x | skip
	neg  bool
	cond apd.Condition
	any  bool // sign not asserted
}

func nanResult(x, y core.Dec, bin bool) (expect, bool) {
	cx, cy := classify(x), classify(y)
	if !cx.nan && !(bin && cy.nan) {
		return expect{}, false
	}
	// a signaling NaN takes precedence (first operand first), then a quiet NaN
	switch {
	case cx.snan:
		return expect{kind: "nan", neg: x.Neg, cond: apd.InvalidOperation}, true
	case bin && cy.snan:
		return expect{kind: "nan", neg: y.Neg, cond: apd.InvalidOperation}, true
	case cx.nan:
		return expect{kind: "nan", neg: x.Neg}, true
	default:
		return expect{kind: "nan", neg: y.Neg}, true
	}
}

var skip = expect{kind: "skip"}
var invalid = expect{kind: "nan", cond: apd.InvalidOperation, any: true}

// table is the specification for special operands (NaNs already handled).
func table(op string, x, y core.Dec, mode string) expect {
	cx, cy := classify(x), classify(y)
	xor := x.Neg != y.Neg
	switch op {
	case "add", "sub":
		yn := y.Neg != (op == "sub")
		switch {
		case cx.inf && cy.inf:
			if x.Neg != yn {
				return invalid
			}
			return expect{kind: "inf", neg: x.Neg}
		case cx.inf:
			return expect{kind: "inf", neg: x.Neg}
		case cy.inf:
			return expect{kind: "inf", neg: yn}
		case cx.zero && cy.zero:
			if x.Neg == yn {
				return expect{kind: "zero", neg: x.Neg}
			}
			return expect{kind: "zero", neg: ref.Mode(mode) == "floor"}
		}
	case "mul":
		switch {
		case (cx.inf && cy.zero) || (cx.zero && cy.inf):
			return invalid
		case cx.inf || cy.inf:
			return expect{kind: "inf", neg: xor}
		case cx.zero || cy.zero:
			return expect{kind: "zero", neg: xor}
		}
	case "quo", "quointeger":
		switch {
		case cx.inf && cy.inf:
			return invalid
		case cx.inf:
			return expect{kind: "inf", neg: xor}
		case cy.inf:
			return expect{kind: "zero", neg: xor}
		case cy.zero && cx.zero:
			return expect{kind: "nan", cond: apd.DivisionUndefined, any: true}
		case cy.zero:
			return expect{kind: "inf", neg: xor, cond: apd.DivisionByZero}
		case cx.zero:
			return expect{kind: "zero", neg: xor}
		}
	case "rem":
		switch {
		case cx.inf:
			return invalid
		case cy.inf:
			return expect{kind: "x", neg: x.Neg}
		case cy.zero && cx.zero:
			return expect{kind: "nan", cond: apd.DivisionUndefined, any: true}
		case cy.zero:
			return invalid
		case cx.zero:
			return expect{kind: "zero", neg: x.Neg}
		}
	case "sqrt":
		switch {
		case cx.inf && x.Neg:
			return invalid
		case cx.inf:
			return expect{kind: "inf"}
		case cx.zero:
			return expect{kind: "zero", neg: x.Neg}
		case x.Neg:
			return invalid
		}
	case "cbrt":
		switch {
		case cx.inf && !x.Neg:
			return expect{kind: "inf"}
		case cx.zero:
			return expect{kind: "zero", neg: x.Neg}
		}
	case "ln", "log10":
		switch {
		case cx.zero:
			return expect{kind: "inf", neg: true}
		case x.Neg:
			return invalid
		case cx.inf:
			return expect{kind: "inf"}
		case cx.one:
			return expect{kind: "zero", any: true}
		}
	case "exp":
		switch {
		case cx.inf && x.Neg:
			return expect{kind: "zero"}
		case cx.inf:
			return expect{kind: "inf"}
		case cx.zero:
			return expect{kind: "one"}
		}
	case "pow":
		oddInt := cy.isInt && cy.odd && !cy.inf && !cy.zero
		negRes := x.Neg && oddInt
		yPos := !y.Neg && !cy.zero
		switch {
		case cx.inf:
			switch {
			case cy.zero:
				return expect{kind: "one"}
			case x.Neg && (cy.inf || !cy.isInt):
				return invalid
			case yPos:
				return expect{kind: "inf", neg: negRes}
			default:
				return expect{kind: "zero", neg: negRes}
			}
		case cx.zero:
			switch {
			case cy.zero:
				return invalid
			case yPos:
				return expect{kind: "zero", neg: negRes}
			default:
				return expect{kind: "inf", neg: negRes}
			}
		case cy.zero:
			return expect{kind: "one"}
		case x.Neg && (cy.inf || !cy.isInt):
			return invalid
		case cy.inf:
			switch {
			case cx.one:
				return expect{kind: "one"}
			case cx.lt1 != y.Neg:
				return expect{kind: "zero"}
			default:
				return expect{kind: "inf"}
			}
		}
	case "abs":
		switch {
		case cx.inf:
			return expect{kind: "inf"}
		case cx.zero:
			return expect{kind: "zero"}
		}
	case "neg":
		switch {
		case cx.inf:
			return expect{kind: "inf", neg: !x.Neg}
		case cx.zero:
			// 0 - x: -0 only for +0 under floor
			return expect{kind: "zero", neg: ref.Mode(mode) == "floor" && !x.Neg}
		}
	case "round", "reduce", "rtie", "rtiv", "ceil", "floor":
		switch {
		case cx.inf:
			return expect{kind: "inf", neg: x.Neg}
		case cx.zero:
			return expect{kind: "zero", neg: x.Neg}
		}
	case "quantize":
		switch {
		case cx.inf:
			return invalid
		case cx.zero:
			return skip // validity depends on the target exponent: C09
		}
	case "cmp":
		switch {
		case cx.inf && cy.inf && x.Neg == y.Neg:
			return expect{kind: "zero", any: true}
		case cx.zero && cy.zero:
			return expect{kind: "zero", any: true}
		}
	}
	return skip
}

func cells() []Case {
	var out []Case
	ctxs := []core.Ctx{{P: 9, Emax: 99, Emin: -99, Rounding: "half_even"}, {P: 5, Emax: 20, Emin: -20, Rounding: "floor", Traps: uint32(apd.InvalidOperation)}}
	k := 0
	for _, op := range unary {
		for _, cx := range classes {
			for _, ctx := range ctxs {
				k++
				out = append(out, Case{Case: arith.Case{Op: op, Ctx: ctx, X: rep(cx, k), Y: core.Dec{Coeff: "0"}, QExp: int32(k%5 - 2)}, CX: cx})
			}
		}
	}
	for _, op := range binary {
		for _, cx := range classes {
			for _, cy := range classes {
				for _, ctx := range ctxs {
					k++
					out = append(out, Case{Case: arith.Case{Op: op, Ctx: ctx, X: rep(cx, k), Y: rep(cy, k/3)}, CX: cx, CY: cy})
				}
			}
		}
	}
	return out
}

func genCase(t *rapid.T) Case {
	var c Case
	bin := gen.Pick(t, 2, "bin") == 0
	if bin {
		c.Op = binary[gen.Pick(t, len(binary), "op")]
	} else {
		c.Op = unary[gen.Pick(t, len(unary), "op")]
	}
	c.Ctx = gen.Context(t, 30)
	if !(c.Op == "cbrt" || c.Op == "ln" || c.Op == "log10" || c.Op == "exp" || c.Op == "pow") && gen.Pick(t, 4, "bigp") == 1 {
		c.Ctx = gen.Context(t, 400)
	}
	if gen.Pick(t, 3, "trap") == 0 {
		c.Ctx.Traps = uint32(apd.InvalidOperation)
	}
	if (arith.P0Op(c.Op) || c.Op == "quo" || c.Op == "quointeger" || c.Op == "rem") && gen.Pick(t, 6, "p0") == 0 {
		c.Ctx.P = 0 // rounding disabled (as in BaseContext): the special-value rules still apply
	}
	k := rapid.IntRange(0, 1000).Draw(t, "k")
	c.CX = classes[gen.Pick(t, len(classes), "cx")]
	c.X = rep(c.CX, k)
	c.Y = core.Dec{Coeff: "0"}
	if bin {
		c.CY = classes[gen.Pick(t, len(classes), "cy")]
		c.Y = rep(c.CY, k/7)
	}
	// generated representatives: zeros with any exponent, finite values by shape
	vary := func(d *core.Dec, label string) {
		cl := classify(*d)
		switch {
		case cl.zero && gen.Pick(t, 2, label+"vz") == 0:
			z := gen.Zero(t, c.Ctx, label+"z")
			d.Exp = z.Exp
		case !cl.nan && !cl.inf && !cl.zero && gen.Pick(t, 3, label+"vf") == 0 && c.Op != "pow":
			f := gen.NonZero(t, c.Ctx, label+"f")
			f.Neg = d.Neg
			if (c.Op == "ln" || c.Op == "log10" || c.Op == "exp" || c.Op == "cbrt") && len(f.Coeff) > 12 {
				f.Coeff = f.Coeff[:12]
			}
			if c.Op == "exp" || c.Op == "ln" || c.Op == "log10" {
				f.Exp = int32(rapid.IntRange(-8, 2).Draw(t, label+"fe"))
			}
			*d = f
		}
	}
	vary(&c.X, "x")
	if bin {
		vary(&c.Y, "y")
	}
	c.QExp = int32(rapid.IntRange(-5, 5).Draw(t, "qexp"))
	switch gen.Pick(t, 6, "qwide") { // target exponents outside the context's range too
	case 0:
		c.QExp = c.Ctx.Emin - int32(c.Ctx.P) + 1 - int32(rapid.IntRange(1, 60).Draw(t, "qlow"))
	case 1:
		c.QExp = c.Ctx.Emax + int32(rapid.IntRange(1, 60).Draw(t, "qhigh"))
	}
	return c
}

func check(c Case, st *core.Stats) error {
	if c.Op == "rem" && c.Ctx.P == 0 && c.X.Form == 0 && c.Y.Form == 0 {
		return nil // with rounding disabled no integer quotient fits: Rem of finite operands is DivisionImpossible
	}
	bin := arith.Binary(c.Op)
	e, isNaN := nanResult(c.X, c.Y, bin)
	if !isNaN {
		e = table(c.Op, c.X, c.Y, c.Ctx.Rounding)
	}
	cell := c.Op + ":" + c.CX
	if bin {
		cell += ":" + c.CY
	}
	if e.kind == "skip" {
		st.Class("cell-without-special-rule")
		return nil
	}
	st.Class("cell:" + cell)
	if c.Ctx.P == 0 {
		st.Class("precision-0")
	}
	st.NonTrivial(e.kind + ":" + c.Op)
	// the rules hold wherever the result is written: fresh destination, d == x, d == y
	pats := []string{"fresh", "d=x"}
	if bin {
		pats = append(pats, "d=y")
	}
	for _, pat := range pats {
		if err := checkOne(c, e, pat, st); err != nil {
			return err
		}
	}
	return nil
}

func checkOne(c Case, e expect, pat string, st *core.Stats) error {
	var o arith.Out
	core.Guard(st, func() {
		x, y := c.X.Apd(), c.Y.Apd()
		d := new(apd.Decimal)
		switch pat {
		case "d=x":
			d = x
		case "d=y":
			d = y
		}
		o = arith.Call(c.Op, c.Ctx.Apd(), d, x, y, c.QExp, c.Str)
	})
	desc := fmt.Sprintf("%v [%s]: got %s flags=%s err=%v", c.Case, pat, core.Show(o.D), core.FlagStr(o.Res), o.Err)
	trapped := apd.Condition(c.Ctx.Traps)&e.cond != 0
	if trapped {
		st.Class("invalid-operation-trapped")
		if o.Err == nil {
			return fmt.Errorf("%s; expected an error because %s is trapped", desc, core.FlagStr(e.cond))
		}
	} else if o.Err != nil {
		// With Precision 0 Quo and QuoInteger refuse to divide (documented), but only where a
		// division is actually needed: a NaN or infinite operand and a zero divisor are decided
		// by the special-value rules in every context.
		p0Divides := (c.Op == "quo" || c.Op == "quointeger") && c.X.Form == 0 && c.Y.Form == 0 && !c.Y.IsZero()
		if (c.Ctx.P == 0 && (p0Divides || (c.Op != "quo" && c.Op != "quointeger"))) || nearLimit(c.Case) {
			return nil
		}
		return fmt.Errorf("%s; unexpected error (specification gives %s)", desc, e.kind)
	}
	// flags: exactly the prescribed ones, apart from Clamped/Rounded/Subnormal bookkeeping
	const bookkeeping = apd.Clamped | apd.Rounded | apd.Subnormal | apd.Inexact
	mask := ^apd.Condition(0)
	if e.kind == "x" || (c.Op == "ln" || c.Op == "log10") && e.kind == "zero" {
		mask = ^apd.Condition(bookkeeping | apd.Underflow)
	} else if e.kind == "zero" {
		mask = ^apd.Condition(apd.Clamped | apd.Rounded) // a zero's exponent may be clamped into the range
	} else if e.kind == "inf" || e.kind == "one" {
		mask = ^apd.Condition(apd.Clamped)
	}
	if e.kind == "x" {
		if nearLimit(c.Case) {
			return nil
		}
		// the first operand, fitted to the context like any result (with Precision 0: exact,
		// subject to the exponent limits only) - the model of Round
		re := arith.Reference(arith.Case{Op: "round", Ctx: c.Ctx, X: c.X, Y: core.Dec{Coeff: "0"}})
		if !re.Defined || re.Limit {
			return nil
		}
		want := re.R
		e.cond = want.Flags()
		mask = apd.Inexact | apd.Subnormal | apd.Underflow | apd.Overflow | apd.InvalidOperation | apd.DivisionByZero | apd.DivisionUndefined | apd.DivisionImpossible
		if !ref.SameValue(o.D, want) {
			return fmt.Errorf("%s; specification prescribes the first operand %v rounded to the context: %v", desc, c.X, want)
		}
	}
	if o.Res&mask != e.cond {
		return fmt.Errorf("%s; specification prescribes conditions %s", desc, core.FlagStr(e.cond))
	}
	d := o.D
	switch e.kind {
	case "nan":
		if d.Form != apd.NaN {
			return fmt.Errorf("%s; specification prescribes a quiet NaN", desc)
		}
		if !e.any && d.Negative != e.neg {
			return fmt.Errorf("%s; the NaN must carry the sign of the propagated operand", desc)
		}
	case "inf":
		if d.Form != apd.Infinite || (!e.any && d.Negative != e.neg) {
			return fmt.Errorf("%s; specification prescribes %sInfinity", desc, sgn(e.neg))
		}
	case "zero":
		if d.Form != apd.Finite || d.Coeff.Sign() != 0 || (!e.any && d.Negative != e.neg) {
			return fmt.Errorf("%s; specification prescribes %s0", desc, sgn(e.neg))
		}
	case "one":
		if d.Form != apd.Finite || d.Negative || ref.CmpMag(d.Coeff.MathBigInt(), int64(d.Exponent), big.NewInt(1), 0) != 0 {
			return fmt.Errorf("%s; specification prescribes 1", desc)
		}
	case "x": // checked above
	}
	return nil
}

func sgn(neg bool) string {
	if neg {
		return "-"
	}
	return "+"
}

func TestC08(t *testing.T)       { core.RunPre(t, "C08", cells(), genCase, checkDiff) }
func TestC08Replay(t *testing.T) { core.Replay(t, "C08", checkDiff) }

// checkDiff: after the table, the cell is compared with Python's decimal module (libmpdec),
// an independent implementation of the specification (result, sign, conditions).
func checkDiff(c Case, st *core.Stats) error {
	if err := check(c, st); err != nil {
		return err
	}
	return arith.DiffExec(c.Case, arith.DiffOpts{Value: true, Flags: true}, 1, st)
}

// nearLimit: operands, exponent gaps or - where the exact-result model applies - the exact
// result within the band around the package's +/-100000 exponent limits (0E50000 * 0E50001
// has exponent 100001): a clean error is acceptable there.
func nearLimit(c arith.Case) bool {
	if arith.NearLimit(c, nil) {
		return true
	}
	if c.X.Form == 0 && (!arith.Binary(c.Op) || c.Y.Form == 0) {
		if e := arith.Reference(c); e.Limit {
			return true
		}
	}
	return false
}
