// C18: a Context and its operands can be shared by concurrent goroutines. The harness is
// built with the race detector. A generated work list over shared contexts and shared
// operand Decimals (inline, heap-backed, and heap-backed values that shrank as results of
// earlier operations) is executed by G goroutines in rotated orders, each into private
// destinations; afterwards the same list is evaluated sequentially. Oracle: no report from
// the race detector (it flags unsynchronised conflicting accesses by happens-before, so the
// bad interleaving need not occur), every goroutine's results equal to the sequential
// ones, operands and package state unchanged.
package c18

import (
	"fmt"
	"math/big"
	"reflect"
	"runtime"
	"strconv"
	"strings"
	"sync"
	"sync/atomic"
	"testing"

	"github.com/cockroachdb/apd/v3"
	"pgregory.net/rapid"
	"verif/harness/arith"
	"verif/harness/core"
	"verif/harness/gen"
	"verif/harness/ref"
)

type Operand struct {
	D      core.Dec `json:"d"`
	Shrunk bool     `json:"shrunk"` // built as huge - (huge - d): heap-backed although small
}

type Item struct {
	Op   string `json:"op"`
	Ctx  int    `json:"ctx"`
	X, Y int
	QExp int32 `json:"qexp"`
}

type Case struct {
	Ctxs     []core.Ctx `json:"ctxs"`
	Pool     []Operand  `json:"pool"`
	Items    []Item     `json:"items"`
	G        int        `json:"g"`
	Procs    int        `json:"procs"`
	YieldMod int        `json:"yieldmod"`
}

var opsList = []string{"add", "sub", "mul", "quo", "quointeger", "rem", "cmp", "abs", "neg", "round", "quantize", "rtie", "rtiv", "ceil", "floor", "reduce", "sqrt",
	"cbrt", "exp", "ln", "log10", "pow",
	"r.string", "r.cmp", "r.cmptotal", "r.numdigits", "r.modf", "r.int64", "r.float64", "r.sign", "r.text", "r.decompose", "r.marshal", "r.size", "r.format"}

func genCase(t *rapid.T) Case {
	var c Case
	nctx := rapid.IntRange(1, 3).Draw(t, "nctx")
	for i := 0; i < nctx; i++ {
		x := gen.Context(t, 16)
		switch gen.Pick(t, 3, "traps") {
		case 0:
			x.Traps = rapid.Uint32Range(0, 1<<12-1).Draw(t, "tr")
		case 1:
			x.Traps = uint32(apd.DefaultTraps)
		}
		// rarely a precision just above a power of two up to 2048: the ln(10) constants are
		// tabulated per power of two, so these are the table's boundaries
		if gen.Pick(t, 40, "hugep") == 0 {
			x.P = []uint32{130, 260, 520, 1030}[gen.Pick(t, 4, "hp")]
			x.Emax, x.Emin = 5000, -5000
		}
		c.Ctxs = append(c.Ctxs, x)
	}
	np := rapid.IntRange(2, 8).Draw(t, "npool")
	for i := 0; i < np; i++ {
		var o Operand
		o.D = gen.Any(t, c.Ctxs[0], fmt.Sprintf("p%d", i))
		switch gen.Pick(t, 4, "pk") {
		case 0: // heap-backed coefficient
			if o.D.Form == 0 {
				o.D.Coeff = gen.DigitsN(t, rapid.IntRange(39, 90).Draw(t, "hl"), gen.Pick(t, 10, "hs"), "heap")
			}
		case 1: // small value living on the heap
			if o.D.Form == 0 {
				o.D.Coeff = gen.Digits(t, 19, "small")
				o.Shrunk = true
			}
		}
		if gen.Pick(t, 12, "padzero") == 0 { // values whose plain notation needs hundreds of padding zeros
			if rapid.Bool().Draw(t, "pz") {
				o.D = core.Dec{Coeff: "0", Exp: int32(-rapid.IntRange(200, 2000).Draw(t, "pze"))}
			} else {
				o.D = core.Dec{Coeff: gen.Digits(t, 5, "pzc"), Exp: int32(rapid.IntRange(-1500, 1500).Draw(t, "pze2"))}
			}
			o.Shrunk = false
		}
		if o.D.Form == 0 && len(o.D.Coeff) > 20 && gen.Pick(t, 2, "trim") == 0 {
			o.D.Exp = int32(rapid.IntRange(-30, 5).Draw(t, "pe"))
		}
		c.Pool = append(c.Pool, o)
	}
	// The same value written twice, the second time 129..400 places finer (or one unit off):
	// comparing the two has to rescale through a power of ten beyond the 128-entry table. Both
	// orders are then requested from several goroutines at once.
	samePair := -1
	if gen.Pick(t, 3, "samepair") == 0 {
		a := core.Dec{Coeff: gen.Digits(t, 30, "spc"), Exp: int32(rapid.IntRange(-20, 20).Draw(t, "spe")), Neg: rapid.Bool().Draw(t, "spn")}
		if a.Coeff == "0" {
			a.Coeff = "7"
		}
		j := rapid.IntRange(129, 400).Draw(t, "spj")
		v := a.Big()
		v.Mul(v, ref.Pow10(int64(j)))
		v.Add(v, big.NewInt(int64(rapid.IntRange(-1, 1).Draw(t, "spd"))))
		b := core.Dec{Coeff: v.String(), Exp: a.Exp - int32(j), Neg: a.Neg}
		samePair = len(c.Pool)
		c.Pool = append(c.Pool, Operand{D: a}, Operand{D: b})
		np += 2
	}
	// Exp of arguments whose result lands at the bottom of a package-limit context: the
	// large-argument path with its special handling near the limits, requested from several
	// goroutines that share the context with everything else in the list.
	expPair := -1
	if gen.Pick(t, 5, "explimit") == 0 {
		lc := core.Ctx{P: uint32(rapid.IntRange(1, 9).Draw(t, "elp")), Emax: gen.Limit, Emin: -gen.Limit, Rounding: c.Ctx0Rounding()}
		c.Ctxs = append(c.Ctxs, lc)
		nctx++
		k := float64(-gen.Limit + rapid.IntRange(-12, 12).Draw(t, "elk"))
		v := k * 2.302585092994046
		str := strings.Replace(strconv.FormatFloat(-v, 'f', 6, 64), ".", "", 1)
		expPair = len(c.Pool)
		c.Pool = append(c.Pool, Operand{D: core.Dec{Coeff: str, Exp: -6, Neg: true}}, Operand{D: core.Dec{Coeff: "1", Exp: 5000}})
		np += 2
	}
	ni := rapid.IntRange(4, 24).Draw(t, "nitems")
	for i := 0; i < ni; i++ {
		it := Item{Op: opsList[gen.Pick(t, len(opsList), "op")], Ctx: gen.Pick(t, nctx, "ictx"), X: gen.Pick(t, np, "ix"), Y: gen.Pick(t, np, "iy")}
		it.QExp = int32(rapid.IntRange(-6, 6).Draw(t, "q"))
		if expPair >= 0 && gen.Pick(t, 3, "useexp") == 0 {
			it.Ctx = nctx - 1
			if rapid.Bool().Draw(t, "expor") {
				it.Op, it.X = "exp", expPair
			} else {
				it.Op, it.X = []string{"round", "r.string", "abs", "reduce"}[gen.Pick(t, 4, "expother")], expPair+1
			}
		}
		if samePair >= 0 && gen.Pick(t, 3, "usepair") == 0 {
			it.Op = []string{"r.cmp", "r.cmptotal", "cmp"}[gen.Pick(t, 3, "pairop")]
			it.X, it.Y = samePair, samePair+1
			if rapid.Bool().Draw(t, "pairswap") {
				it.X, it.Y = it.Y, it.X
			}
		}
		c.Items = append(c.Items, it)
	}
	c.G = []int{2, 4, 8, 16}[gen.Pick(t, 4, "g")]
	c.Procs = []int{2, 4, 16}[gen.Pick(t, 3, "procs")]
	c.YieldMod = rapid.IntRange(1, 5).Draw(t, "yield")
	return c
}

func build(o Operand) *apd.Decimal {
	d := o.D.Apd()
	if o.Shrunk && d.Form == apd.Finite {
		// (huge + v) - huge: the big.Int slow path leaves the small result on the heap.
		var huge apd.BigInt
		huge.SetString("340282366920938463463374607431768211456000000000000000000007", 10)
		var acc apd.BigInt
		acc.Add(&huge, &d.Coeff)
		acc.Sub(&acc, &huge)
		d.Coeff = acc // struct copy keeps the heap pointer; d is the only owner
	}
	return d
}

func snap(d *apd.Decimal) string {
	return fmt.Sprintf("%d/%v/%d/%s/%d", d.Form, d.Negative, d.Exponent, d.Coeff.VerifReprString(), d.Size())
}

// bounded keeps transcendental work cheap.
func bounded(op string, x, y *apd.Decimal) bool {
	switch op {
	case "add", "sub", "quo", "rem", "quointeger":
		// keep exponent gaps moderate (10^gap arithmetic under the race detector)
		if x.Form == apd.Finite && y.Form == apd.Finite {
			if g := int64(x.Exponent) - int64(y.Exponent); g > 3000 || g < -3000 {
				return false
			}
		}
	}
	switch op {
	case "exp", "ln", "log10", "pow", "cbrt":
		if x.Form == apd.Finite && (x.NumDigits() > 24 || x.Exponent > 30 || x.Exponent < -60) {
			return false
		}
		if op == "pow" && y.Form == apd.Finite && (y.NumDigits() > 10 || y.Exponent > 2 || y.Exponent < -20) {
			return false
		}
	}
	return true
}

func exec(it Item, ctx *apd.Context, x, y *apd.Decimal) string {
	switch it.Op {
	case "r.string":
		return x.String()
	case "r.cmp":
		if x.Form >= apd.NaNSignaling || y.Form >= apd.NaNSignaling {
			return "nan"
		}
		return fmt.Sprint(x.Cmp(y))
	case "r.cmptotal":
		return fmt.Sprint(x.CmpTotal(y))
	case "r.numdigits":
		return fmt.Sprint(x.NumDigits(), apd.NumDigits(&x.Coeff))
	case "r.modf":
		if x.Form != apd.Finite {
			return "-"
		}
		var i, f apd.Decimal
		x.Modf(&i, &f)
		return core.Show(&i) + core.Show(&f)
	case "r.int64":
		v, err := x.Int64()
		return fmt.Sprint(v, err)
	case "r.float64":
		v, err := x.Float64()
		return fmt.Sprint(v, err != nil)
	case "r.sign":
		return fmt.Sprint(x.Sign(), x.IsZero())
	case "r.text":
		if x.Exponent > 3000 || x.Exponent < -3000 {
			return x.Text('E')
		}
		return x.Text('f') + x.Text('e')
	case "r.decompose":
		f, n, co, e := x.Decompose(nil)
		return fmt.Sprint(f, n, co, e)
	case "r.marshal":
		b, _ := x.MarshalText()
		v, _ := (*x).Value()
		return string(b) + fmt.Sprint(v)
	case "r.size":
		return fmt.Sprint(x.Size())
	case "r.format":
		return fmt.Sprintf("%v|%+08.3e|%s", x, x, x)
	}
	if !bounded(it.Op, x, y) {
		return "skipped"
	}
	o := arith.Call(it.Op, ctx, new(apd.Decimal), x, y, it.QExp, "")
	e := "<nil>"
	if o.Err != nil {
		e = o.Err.Error()
	}
	return fmt.Sprintf("%s %s %s %d", core.Show(o.D), core.FlagStr(o.Res), e, o.N)
}

var baseGlobals = apd.VerifGlobals()

func check(c Case, st *core.Stats) error {
	if len(c.Pool) == 0 || len(c.Items) == 0 || c.G < 1 {
		return nil
	}
	prev := runtime.GOMAXPROCS(c.Procs)
	defer runtime.GOMAXPROCS(prev)
	ctxs := make([]*apd.Context, len(c.Ctxs))
	for i := range c.Ctxs {
		ctxs[i] = c.Ctxs[i].Apd()
	}
	pool := make([]*apd.Decimal, len(c.Pool))
	before := make([]string, len(c.Pool))
	for i := range c.Pool {
		pool[i] = build(c.Pool[i])
		before[i] = snap(pool[i]) // reads the representation only, through the hook
		if c.Pool[i].Shrunk {
			st.Class("shared-shrunk-heap-operand")
		} else if len(c.Pool[i].D.Coeff) >= 39 {
			st.Class("shared-heap-operand")
		}
	}
	n := len(c.Items)
	results := make([][]string, c.G)
	var active, overlapped int64
	var wg sync.WaitGroup
	start := make(chan struct{})
	for g := 0; g < c.G; g++ {
		results[g] = make([]string, n)
		wg.Add(1)
		go func(g int) {
			defer wg.Done()
			<-start
			for k := 0; k < n; k++ {
				i := (k + g*(n/c.G+1)) % n
				it := c.Items[i]
				if atomic.AddInt64(&active, 1) > 1 {
					atomic.AddInt64(&overlapped, 1)
				}
				results[g][i] = exec(it, ctxs[it.Ctx%len(ctxs)], pool[it.X%len(pool)], pool[it.Y%len(pool)])
				atomic.AddInt64(&active, -1)
				if (k+g)%c.YieldMod == 0 {
					runtime.Gosched()
				}
			}
		}(g)
	}
	close(start)
	wg.Wait()
	if overlapped > 0 {
		st.NonTrivial(fmt.Sprintf("overlapping-calls-G%d", c.G))
	}
	for _, it := range c.Items {
		st.Class("op:" + it.Op)
	}
	for _, x := range c.Ctxs {
		if x.Traps != 0 {
			st.Class("shared-context-with-traps")
			break
		}
	}
	// sequential evaluation afterwards (so that it cannot warm any lazily filled state
	// before the concurrent phase), on the same shared objects
	for i, it := range c.Items {
		want := exec(it, ctxs[it.Ctx%len(ctxs)], pool[it.X%len(pool)], pool[it.Y%len(pool)])
		for g := 0; g < c.G; g++ {
			if results[g][i] != want {
				return fmt.Errorf("item %d (%s x=%v y=%v ctx=%v): goroutine %d of %d got %q, run alone it gives %q", i, it.Op,
					c.Pool[it.X%len(pool)].D, c.Pool[it.Y%len(pool)].D, c.Ctxs[it.Ctx%len(ctxs)], g, c.G, results[g][i], want)
			}
		}
	}
	// and on fresh copies of the operands: sharing must not have changed them
	for i, it := range c.Items {
		fresh := exec(it, c.Ctxs[it.Ctx%len(ctxs)].Apd(), build(c.Pool[it.X%len(pool)]), build(c.Pool[it.Y%len(pool)]))
		if fresh != results[0][i] {
			return fmt.Errorf("item %d (%s): shared objects give %q, fresh copies give %q", i, it.Op, results[0][i], fresh)
		}
	}
	for i := range pool {
		if s := snap(pool[i]); s != before[i] {
			return fmt.Errorf("shared operand %d (%v, shrunk=%v) was modified by read-only use: %s -> %s", i, c.Pool[i].D, c.Pool[i].Shrunk, before[i], s)
		}
	}
	for i := range ctxs {
		if *ctxs[i] != *c.Ctxs[i].Apd() {
			return fmt.Errorf("shared context %d was modified", i)
		}
	}
	if g := apd.VerifGlobals(); !reflect.DeepEqual(g, baseGlobals) {
		return fmt.Errorf("shared package state changed during the concurrent phase")
	}
	return nil
}

func TestC18(t *testing.T)       { core.Run(t, "C18", genCase, check) }
func TestC18Replay(t *testing.T) { core.Replay(t, "C18", check) }

// Ctx0Rounding is the rounding mode of the first context of the case.
func (c Case) Ctx0Rounding() string {
	if len(c.Ctxs) > 0 {
		return c.Ctxs[0].Rounding
	}
	return "half_even"
}
