package gen

import (
	"math/big"
	"strings"

	"pgregory.net/rapid"
	"verif/harness/core"
	"verif/harness/ref"
)

// ExpArg draws an argument for Exp: magnitude from 10^-(P+3) to 10^3 (up to maxMag digits
// before the point in a small class), 1..2P+5 digits, either sign.
func ExpArg(t *rapid.T, c core.Ctx, label string) core.Dec {
	p := int(c.P)
	if p > 0 && Pick(t, 16, label+"nearrep") == 1 {
		// x = ln(v), to 60 places, of a value v of at most Precision digits placed in the
		// context's subnormal region (half the cases), at the top of its range or near 1: e^x is
		// within 10^-55 of a representable number, so the final rounding of an implementation
		// that works with guard digits drops zeros (or nines) only
		vd := strings.TrimLeft(DigitsN(t, rapid.IntRange(1, p).Draw(t, label+"nrn"), 9, label+"nrv"), "0")
		if vd == "" {
			vd = "7"
		}
		var e int
		switch Pick(t, 4, label+"nrwhere") {
		case 0, 1:
			e = int(c.Emin) - rapid.IntRange(-1, p+1).Draw(t, label+"nrsub")
		case 2:
			e = int(c.Emax) - rapid.IntRange(-1, 2).Draw(t, label+"nrtop")
		default:
			e = rapid.IntRange(-30, 30).Draw(t, label+"nrmid")
		}
		if e < -Limit+100 {
			e = -Limit + 100
		}
		if e > Limit-100 {
			e = Limit - 100
		}
		vb, _ := new(big.Int).SetString(vd, 10)
		const w = 60
		r := ref.NewFP(w).LnDec(vb, int64(e-len(vd)+1))
		return core.Dec{Coeff: new(big.Int).Abs(r.Lo).String(), Exp: -w, Neg: r.Lo.Sign() < 0}
	}
	s := Digits(t, 2*p+5, label)
	if s == "0" {
		s = "1"
	}
	d := core.Dec{Coeff: s, Neg: rapid.Bool().Draw(t, label+"neg")}
	var adj int
	switch Pick(t, 10, label+"mag") {
	case 0:
		adj = rapid.IntRange(-p-3, -p+1).Draw(t, label+"adj") // tiny: result rounds to 1 or 1+ulp
	case 1:
		adj = rapid.IntRange(2, 3).Draw(t, label+"adj") // hundreds to thousands
	default:
		adj = rapid.IntRange(-p, 1).Draw(t, label+"adj")
	}
	d.Exp = int32(adj - len(s) + 1)
	return d
}

// LogArg draws a positive argument for Ln/Log10: near 1 from both sides with long tails,
// powers of ten (exact for Log10), values in [0.9,1.1), and generic values with adjusted
// exponent up to +/-maxAdj.
func LogArg(t *rapid.T, c core.Ctx, maxAdj int, label string) core.Dec {
	p := int(c.P)
	switch Pick(t, 8, label+"kind") {
	case 0: // 1 + eps : 1 000..0 tail
		z := rapid.IntRange(0, p+3).Draw(t, label+"z")
		tail := Digits(t, p+3, label+"tail")
		s := "1" + strings.Repeat("0", z) + tail
		return core.Dec{Coeff: s, Exp: int32(-(len(s) - 1))}
	case 1: // 1 - eps : 0.999..9 tail
		z := rapid.IntRange(1, p+3).Draw(t, label+"z")
		tail := Digits(t, p+3, label+"tail")
		s := strings.Repeat("9", z) + tail
		return core.Dec{Coeff: s, Exp: int32(-len(s))}
	case 2: // power of ten, possibly with trailing zeros in the coefficient
		k := rapid.IntRange(-maxAdj, maxAdj).Draw(t, label+"k")
		z := rapid.IntRange(0, 3).Draw(t, label+"z")
		return core.Dec{Coeff: "1" + strings.Repeat("0", z), Exp: int32(k - z)}
	case 3: // [0.9, 1.1)
		s := Digits(t, 2*p+3, label)
		if rapid.Bool().Draw(t, label+"lo") {
			s = "9" + s
			return core.Dec{Coeff: s, Exp: int32(-len(s))}
		}
		s = "10" + s
		return core.Dec{Coeff: s, Exp: int32(-(len(s) - 1))}
	default:
		s := Digits(t, 2*p+5, label)
		if s == "0" {
			s = "2"
		}
		adj := rapid.IntRange(-maxAdj, maxAdj).Draw(t, label+"adj")
		if Pick(t, 3, label+"small") != 0 {
			adj = rapid.IntRange(-3, 3).Draw(t, label+"adj2")
		}
		return core.Dec{Coeff: s, Exp: int32(adj - len(s) + 1)}
	}
}

// PowArgs draws base and exponent for Pow: integer, half-integer and fractional exponents,
// bases near 1, negative bases with integer exponents.
func PowArgs(t *rapid.T, c core.Ctx) (x, y core.Dec) {
	p := int(c.P)
	x = LogArg(t, c, 6, "x")
	switch Pick(t, 6, "ykind") {
	case 0, 1: // small integer
		n := rapid.IntRange(-12, 12).Draw(t, "yi")
		y = FromBig(big.NewInt(int64(n)), 0)
		if rapid.Bool().Draw(t, "yz") { // integer written with trailing fraction zeros
			y = FromBig(big.NewInt(int64(n)*100), -2)
		}
		if Pick(t, 3, "xneg") == 0 {
			x.Neg = true
		}
	case 2: // larger integer with a base near 1 so the result stays in range
		n := rapid.IntRange(-400, 400).Draw(t, "yi")
		y = FromBig(big.NewInt(int64(n)), 0)
	case 3: // half-integer
		n := rapid.IntRange(-20, 20).Draw(t, "yh")
		y = FromBig(big.NewInt(int64(2*n+1)*5), -1)
	default: // fractional, up to 2P+3 digits
		s := Digits(t, 2*p+3, "y")
		if s == "0" {
			s = "5"
		}
		adj := rapid.IntRange(-p-2, 1).Draw(t, "yadj")
		y = core.Dec{Coeff: s, Exp: int32(adj - len(s) + 1), Neg: rapid.Bool().Draw(t, "yneg")}
	}
	return x, y
}

// RootArg draws an operand for Sqrt (k=2) or Cbrt (k=3): perfect powers of roots with at
// most P+1 digits, their neighbours +/-1 and +/-2, all-nines, one-plus-epsilon, generic;
// odd and even exponents.
func RootArg(t *rapid.T, c core.Ctx, k int, label string) core.Dec {
	p := int(c.P)
	var d core.Dec
	switch Pick(t, 6, label+"kind") {
	case 0, 1, 2:
		r, _ := new(big.Int).SetString(Digits(t, p+1, label+"root"), 10)
		v := new(big.Int).Exp(r, big.NewInt(int64(k)), nil)
		if Pick(t, 2, label+"exactpow") == 0 {
			v.Add(v, big.NewInt(int64(rapid.IntRange(-2, 2).Draw(t, label+"delta"))))
		}
		if v.Sign() < 0 {
			v.SetInt64(0)
		}
		d = core.Dec{Coeff: v.String()}
		// a nearly perfect power: the low digits of r^k dropped (or bumped by one unit of the
		// kept precision), so that the root lies extremely close to a representable value
		if Pick(t, 4, label+"nearly") == 0 && len(d.Coeff) > 2 {
			j := rapid.IntRange(1, len(d.Coeff)-1).Draw(t, label+"dropdigits")
			q := new(big.Int).Quo(v, ref.Pow10(int64(j)))
			q.Add(q, big.NewInt(int64(rapid.IntRange(0, 1).Draw(t, label+"bump"))))
			if q.Sign() > 0 {
				d = core.Dec{Coeff: q.String(), Exp: int32(j)}
			}
		}
		// root + 1/2 squared style neighbours: (2r+1)^k / 2^k has the root exactly on a tie
		if Pick(t, 4, label+"tie") == 0 && r.Sign() > 0 {
			h := new(big.Int).Add(new(big.Int).Mul(r, big.NewInt(10)), big.NewInt(5)) // r.5 scaled by 10
			v = new(big.Int).Exp(h, big.NewInt(int64(k)), nil)
			v.Add(v, big.NewInt(int64(rapid.IntRange(-1, 1).Draw(t, label+"tdelta"))))
			d = core.Dec{Coeff: v.String(), Exp: int32(-k)}
		}
	case 3:
		s := "1" + strings.Repeat("0", rapid.IntRange(0, 2*p+3).Draw(t, label+"z")) + Digits(t, 3, label+"tail")
		d = core.Dec{Coeff: s, Exp: int32(-(len(s) - 1))}
	default:
		d = core.Dec{Coeff: Digits(t, 2*p+5, label)}
	}
	d.Exp += int32(rapid.IntRange(-2*p-6, 2*p+6).Draw(t, label+"exp"))
	if Pick(t, 8, label+"anch") == 0 {
		d.Exp = Exponent(t, c, int64(len(d.Coeff)), label)
	}
	if k == 3 {
		d.Neg = rapid.Bool().Draw(t, label+"neg")
	}
	_ = ref.Pow10
	return d
}
