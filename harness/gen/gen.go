// Package gen holds the rapid generators shared by the property checks. All randomness
// goes through rapid draws so that shrinking and replay work.
package gen

import (
	"math/big"
	"strings"

	"pgregory.net/rapid"
	"verif/harness/core"
	"verif/harness/ref"
)

// Modes are the eight rounding modes, the empty default and an unknown name (both of
// which Context documents to mean half-up).
var Modes = []string{"down", "half_up", "half_even", "ceiling", "floor", "half_down", "up", "05up", "", "bogus"}

// EightModes are the named modes only.
var EightModes = Modes[:8]

const Limit = 100000

// Pick draws an integer in [0,n) approximately uniformly. rapid's own integer
// generators are deliberately biased towards small magnitudes and range bounds (measured:
// IntRange(0,999) yields a value below 80 in 58% and a value >= 998 in 3% of draws), which
// is useful for sizes but wrong for weighted choices between classes. The draw still
// comes from rapid (so shrinking and replay work; it shrinks towards 0).
func Pick(t *rapid.T, n int, label string) int {
	v := rapid.Uint64().Draw(t, label)
	v *= 0x9E3779B97F4A7C15
	v ^= v >> 29
	return int((v >> 11) % uint64(n))
}

// Precision draws a precision in 1..maxP, biased to small values.
func Precision(t *rapid.T, maxP int) uint32 {
	k := Pick(t, 10, "pk")
	var p int
	switch {
	case k < 5:
		p = rapid.IntRange(1, 9).Draw(t, "p")
	case k < 9 || maxP <= 40:
		hi := 40
		if maxP < hi {
			hi = maxP
		}
		p = rapid.IntRange(1, hi).Draw(t, "p")
	default:
		p = rapid.IntRange(41, maxP).Draw(t, "p")
	}
	if p > maxP {
		p = maxP
	}
	return uint32(p)
}

// Context draws a well-formed context with Precision in 1..maxP and no traps.
func Context(t *rapid.T, maxP int) core.Ctx {
	p := Precision(t, maxP)
	return ContextP(t, p)
}

// ContextP draws exponent range and mode for a given precision (p may be 0).
func ContextP(t *rapid.T, p uint32) core.Ctx {
	c := core.Ctx{P: p}
	lo := int(p)
	if lo < 1 {
		lo = 1
	}
	switch k := Pick(t, 1000, "emaxk"); {
	case k >= 300 && k < 450:
		// MaxExponent below the precision: a full-length coefficient then only fits with a
		// negative exponent (nothing in the package requires MaxExponent >= Precision)
		c.Emax = int32(rapid.IntRange(0, lo).Draw(t, "emaxlow"))
	case k < 450:
		c.Emax = int32(rapid.IntRange(lo, lo+20).Draw(t, "emax"))
	case k < 998:
		hi := 1000
		if lo > hi {
			hi = lo
		}
		c.Emax = int32(rapid.IntRange(lo, hi).Draw(t, "emax"))
	default:
		c.Emax = Limit
	}
	switch k := Pick(t, 1000, "emink"); {
	case k < 80:
		c.Emin = 0
	case k < 500:
		c.Emin = int32(-rapid.IntRange(0, 20).Draw(t, "emin"))
	case k < 998:
		c.Emin = int32(-rapid.IntRange(0, 1000).Draw(t, "emin"))
	default:
		c.Emin = -Limit
	}
	c.Rounding = rapid.SampledFrom(Modes).Draw(t, "mode")
	return c
}

// Digits draws a coefficient string of 1..maxLen digits (no leading zero unless it is "0")
// from shapes chosen to sit on rounding boundaries: all nines, 10^k, 10^k+1, tie patterns
// ...5000, ...4999, ...5001, and random digits.
func Digits(t *rapid.T, maxLen int, label string) string {
	if maxLen < 1 {
		maxLen = 1
	}
	n := rapid.IntRange(1, maxLen).Draw(t, label+"len")
	kind := Pick(t, 10, label+"kind")
	return DigitsN(t, n, kind, label)
}

func randDigits(t *rapid.T, n int, label string) []byte {
	b := make([]byte, 0, n+19)
	for len(b) < n {
		v := rapid.Uint64().Draw(t, label+"r")
		s := big.NewInt(0).SetUint64(v).String()
		for len(s) < 19 {
			s = "0" + s
		}
		b = append(b, s[len(s)-19:]...)
	}
	return b[:n]
}

// DigitsN builds exactly n digits of the given shape kind.
func DigitsN(t *rapid.T, n, kind int, label string) string {
	b := make([]byte, n)
	fill := func(from int, ch byte) {
		for i := from; i < n; i++ {
			b[i] = ch
		}
	}
	switch kind {
	case 0: // all nines
		fill(0, '9')
	case 1: // 1000..0
		fill(0, '0')
		b[0] = '1'
	case 2: // 1000..01
		fill(0, '0')
		b[0] = '1'
		b[n-1] = '1'
	case 3, 4, 5, 6: // random prefix then 5000.. / 4999.. / 5000..01 / 999..
		k := rapid.IntRange(0, n-1).Draw(t, label+"k")
		copy(b, randDigits(t, k, label))
		switch kind {
		case 3:
			b[k] = '5'
			fill(k+1, '0')
		case 4:
			b[k] = '4'
			fill(k+1, '9')
		case 5:
			b[k] = '5'
			fill(k+1, '0')
			b[n-1] = '1'
			if k == n-1 {
				b[k] = '5'
			}
		case 6:
			fill(k, '9')
		}
	case 8: // a binary boundary (2^63, 2^64, 2^127, 2^128, +/-1) as leading digits, then a tail
		pre := []string{"18446744073709551615", "18446744073709551616", "9223372036854775807", "9223372036854775808",
			"340282366920938463463374607431768211455", "340282366920938463463374607431768211456", "170141183460469231731687303715884105727",
			"4294967295", "4294967296", "18446744073709551614"}[Pick(t, 10, label+"bin")]
		copy(b, randDigits(t, n, label))
		if Pick(t, 2, label+"bintail") == 0 {
			fill(0, []byte{'0', '9', '5'}[Pick(t, 3, label+"bt")])
		}
		copy(b, pre)
	default:
		copy(b, randDigits(t, n, label))
	}
	s := strings.TrimLeft(string(b), "0")
	if s == "" {
		return "0"
	}
	return s
}

// CoeffLen draws a coefficient length for precision p: mostly 1..2p+5, sometimes long
// enough to leave the 128-bit inline representation.
func CoeffLen(t *rapid.T, p uint32, label string) int {
	k := Pick(t, 40, label+"lk")
	switch {
	case k == 0:
		return 2*int(p) + 5 + 300
	case k < 4:
		return 2*int(p) + 45
	default:
		return 2*int(p) + 5
	}
}

func clampExp(exp, nd int64) int32 {
	if exp+nd-1 > Limit {
		exp = Limit - nd + 1
	}
	if exp < -Limit {
		exp = -Limit
	}
	if exp > Limit {
		exp = Limit
	}
	return int32(exp)
}

// Exponent places a coefficient of nd digits so that its adjusted exponent is near one of
// the anchors of the context: 0, Emin, Etiny, Emax and the middle of the range.
func Exponent(t *rapid.T, c core.Ctx, nd int64, label string) int32 {
	p := int64(c.P)
	anchors := []int64{0, 0, 0, int64(c.Emin), int64(c.Emin) - p + 1, int64(c.Emax), int64(c.Emin) / 2, int64(c.Emax) / 2}
	a := rapid.SampledFrom(anchors).Draw(t, label+"anchor")
	off := rapid.Int64Range(-p-3, p+3).Draw(t, label+"off")
	if Pick(t, 16, label+"far") == 1 {
		// far outside the context's own range (operands need not come from the context they
		// are used in): several times the range away, in either direction
		span := int64(c.Emax) - int64(c.Emin) + 2*p + 10
		a = rapid.Int64Range(span, 3*span+200).Draw(t, label+"fara")
		if rapid.Bool().Draw(t, label+"farneg") {
			a = -a
		}
	}
	return clampExp(a+off-nd+1, nd)
}

// Finite draws a non-special decimal shaped for context c.
func Finite(t *rapid.T, c core.Ctx, label string) core.Dec {
	s := Digits(t, CoeffLen(t, c.P, label), label)
	d := core.Dec{Coeff: s, Neg: rapid.Bool().Draw(t, label+"neg")}
	d.Exp = Exponent(t, c, int64(len(s)), label)
	return d
}

// NonZero draws a finite non-zero decimal.
func NonZero(t *rapid.T, c core.Ctx, label string) core.Dec {
	d := Finite(t, c, label)
	if d.Coeff == "0" {
		d.Coeff = "1"
	}
	return d
}

// Zero draws a signed zero with an exponent near the anchors or the package limits.
func Zero(t *rapid.T, c core.Ctx, label string) core.Dec {
	d := core.Dec{Coeff: "0", Neg: rapid.Bool().Draw(t, label+"neg")}
	switch Pick(t, 4, label+"zk") {
	case 0:
		d.Exp = int32(rapid.IntRange(-5, 5).Draw(t, label+"ze"))
	case 1:
		d.Exp = rapid.SampledFrom([]int32{-Limit, Limit, -Limit + 1, Limit - 1}).Draw(t, label+"ze")
	default:
		d.Exp = Exponent(t, c, 1, label)
	}
	return d
}

// Special draws an infinity or NaN. Infinities sometimes carry a junk coefficient and
// exponent, as the library itself leaves behind on overflow.
func Special(t *rapid.T, label string) core.Dec {
	d := core.Dec{Coeff: "0", Neg: rapid.Bool().Draw(t, label+"neg")}
	switch Pick(t, 5, label+"sk") {
	case 0:
		d.Form = 1
	case 1:
		d.Form = 1
		d.Coeff = Digits(t, 12, label+"junk")
		d.Exp = int32(rapid.IntRange(-50, 50).Draw(t, label+"junke"))
	case 2:
		d.Form = 2
	default:
		d.Form = 3
	}
	return d
}

// Any draws any well-formed decimal: mostly finite, sometimes zero or special.
func Any(t *rapid.T, c core.Ctx, label string) core.Dec {
	switch k := Pick(t, 20, label+"any"); {
	case k == 0:
		return Special(t, label)
	case k == 1:
		return Zero(t, c, label)
	default:
		return Finite(t, c, label)
	}
}

// FromBig builds a finite Dec from a signed big integer and an exponent.
func FromBig(v *big.Int, exp int64) core.Dec {
	d := core.Dec{Neg: v.Sign() < 0, Coeff: new(big.Int).Abs(v).String()}
	d.Exp = clampExp(exp, int64(len(d.Coeff)))
	return d
}

func signed(d core.Dec) *big.Int {
	b := d.Big()
	if d.Neg {
		b.Neg(b)
	}
	return b
}

// Pair draws two finite operands for op ("add","sub","mul","quo"): half of the time
// independently by shape, half of the time constructed from a drawn target so that the
// exact result sits on a tie, an all-nines carry, an exact cancellation or one unit off.
func Pair(t *rapid.T, c core.Ctx, op string) (x, y core.Dec) {
	if Pick(t, 2, "targeted") == 0 {
		return Finite(t, c, "x"), Finite(t, c, "y")
	}
	switch op {
	case "add", "sub":
		if Pick(t, 12, "borrow") == 1 {
			// A power of ten minus (or plus) an operand whose leading digit sits at, just above or
			// just below the first discarded place: the subtraction borrows through the whole
			// coefficient, the result is one digit shorter, and the rounding is decided by the
			// far operand's leading digits. That operand has 1..40 digits, or more than a
			// thousand (an alignment gap beyond any table or shortcut threshold).
			p := int64(c.P)
			z := int64(rapid.IntRange(0, int(c.P)).Draw(t, "bz"))
			hiExp := int64(Exponent(t, c, z+1, "bhe"))
			x = core.Dec{Coeff: "1" + strings.Repeat("0", int(z)), Exp: int32(hiExp), Neg: rapid.Bool().Draw(t, "bxneg")}
			hiAdj := hiExp + z
			n := rapid.IntRange(1, 40).Draw(t, "bln")
			if Pick(t, 3, "blong") == 0 {
				n = rapid.IntRange(1001, 1400).Draw(t, "blnl")
			}
			y = core.Dec{Coeff: DigitsN(t, n, Pick(t, 10, "bys"), "by")}
			if y.Coeff == "0" {
				y.Coeff = "6"
			}
			loAdj := hiAdj - p - int64(rapid.IntRange(-1, 3).Draw(t, "bj"))
			ye := loAdj - int64(len(y.Coeff)) + 1
			if ye < -Limit {
				ye = -Limit
			}
			y.Exp = int32(ye)
			// unlike effective signs most of the time
			y.Neg = x.Neg == (op == "sub")
			if Pick(t, 4, "bsame") == 0 {
				y.Neg = !y.Neg
			}
			if rapid.Bool().Draw(t, "bswap") {
				x, y = y, x
				if op == "sub" {
					x.Neg, y.Neg = !x.Neg, !y.Neg
				}
			}
			return x, y
		}
		if Pick(t, 16, "topsum") == 1 {
			// Two operands with the SAME exponent whose exact sum has one digit more than either
			// and lands with its adjusted exponent at MaxExponent or one above: the sum needs no
			// alignment and possibly no rounding, only the range check. Coefficient lengths sit
			// at the machine-word boundaries as often as elsewhere.
			n := []int{1, 5, 18, 19, 20, 37, 38, 39, int(c.P), int(c.P) + 1}[Pick(t, 10, "tsn")]
			if n < 1 {
				n = 1
			}
			lead := []string{"9", "5", "18446744073709551615", "9223372036854775807", "1844674407370955161"}[Pick(t, 5, "tslead")]
			xs := DigitsN(t, n, 9, "tsx") // random digits
			if len(lead) <= len(xs) && Pick(t, 2, "tsuse") == 0 {
				xs = lead + xs[len(lead):]
			}
			xb, _ := new(big.Int).SetString(xs, 10)
			if xb.Sign() == 0 {
				xb.SetInt64(7)
			}
			// y makes the sum reach n+1 digits: 10^n - x + small
			yb := new(big.Int).Sub(ref.Pow10(int64(n)), xb)
			yb.Add(yb, big.NewInt(int64(rapid.IntRange(-2, 40).Draw(t, "tsd"))))
			if yb.Sign() <= 0 {
				yb.SetInt64(1)
			}
			sum := new(big.Int).Add(xb, yb)
			e := int64(c.Emax) - int64(len(sum.String())) + 1 + int64(rapid.IntRange(-1, 1).Draw(t, "tse"))
			neg := rapid.Bool().Draw(t, "tsneg")
			x = core.Dec{Coeff: xb.String(), Exp: clampExp(e, int64(n)), Neg: neg}
			y = core.Dec{Coeff: yb.String(), Exp: x.Exp, Neg: neg != (op == "sub")}
			if rapid.Bool().Draw(t, "tsswap") {
				x, y = y, x
				if op == "sub" {
					x.Neg, y.Neg = !x.Neg, !y.Neg
				}
			}
			return x, y
		}
		// exact sum T = x (+/-) y
		T := Finite(t, c, "T")
		if Pick(t, 10, "cancel") == 0 {
			T.Coeff = "0"
		}
		x = Finite(t, c, "x")
		// keep x's exponent near T's so that the pair is not dominated by one operand
		x.Exp = clampExp(int64(T.Exp)+int64(rapid.IntRange(-int(c.P)-3, int(c.P)+3).Draw(t, "dx")), int64(len(x.Coeff)))
		e := int64(T.Exp)
		if int64(x.Exp) < e {
			e = int64(x.Exp)
		}
		tv := new(big.Int).Mul(signed(T), ref.Pow10(int64(T.Exp)-e))
		xv := new(big.Int).Mul(signed(x), ref.Pow10(int64(x.Exp)-e))
		yv := new(big.Int).Sub(tv, xv)
		if op == "sub" {
			yv.Neg(yv)
		}
		y = FromBig(yv, e)
		if Pick(t, 8, "off1") == 0 { // one unit off the target
			y = FromBig(new(big.Int).Add(yv, big.NewInt(int64(rapid.IntRange(-1, 1).Draw(t, "u")))), e)
		}
		return x, y
	case "mul":
		T := Finite(t, c, "T")
		div := rapid.SampledFrom([]int64{1, 2, 4, 5, 8, 16, 25, 125, 3, 7, 9, 11}).Draw(t, "div")
		tb := T.Big()
		q, r := new(big.Int).QuoRem(tb, big.NewInt(div), new(big.Int))
		if r.Sign() != 0 || q.Sign() == 0 {
			q, div = tb, 1
		}
		k := int64(rapid.IntRange(-3, 3).Draw(t, "k"))
		x = FromBig(q, int64(T.Exp)-k)
		x.Neg = T.Neg
		y = core.Dec{Coeff: big.NewInt(div).String(), Exp: int32(k), Neg: rapid.Bool().Draw(t, "yneg")}
		if y.Neg {
			x.Neg = !x.Neg
		}
		if rapid.Bool().Draw(t, "swap") {
			x, y = y, x
		}
		return x, y
	default: // quo: x = q*y (+/- small), q shaped with P+k digits
		y = NonZero(t, c, "y")
		if rapid.Bool().Draw(t, "shorty") {
			y.Coeff = Digits(t, int(c.P)+3, "ys")
			if y.Coeff == "0" {
				y.Coeff = "3"
			}
		}
		ql := int(c.P) + rapid.IntRange(0, 4).Draw(t, "qextra")
		q := DigitsN(t, ql, Pick(t, 10, "qkind"), "q")
		qb, _ := new(big.Int).SetString(q, 10)
		xv := new(big.Int).Mul(qb, y.Big())
		xv.Add(xv, big.NewInt(int64(rapid.IntRange(-1, 1).Draw(t, "u"))))
		if xv.Sign() < 0 {
			xv.SetInt64(0)
		}
		// place the quotient's adjusted exponent near an anchor
		qe := int64(Exponent(t, c, int64(len(q)), "qe"))
		x = FromBig(xv, qe+int64(y.Exp))
		x.Neg = rapid.Bool().Draw(t, "xneg")
		return x, y
	}
}
