// C12: Exp, Ln, Log10 and Pow are accurate to one unit in the last place. Oracle: rigorous
// interval enclosures of the true value (ref/encl.go) computed with independent
// big-integer fixed-point series; exactness cases by definition with big integers.
package c12

import (
	"fmt"
	"math"
	"math/big"
	"strconv"
	"strings"
	"testing"

	"github.com/cockroachdb/apd/v3"
	"pgregory.net/rapid"
	"verif/harness/arith"
	"verif/harness/core"
	"verif/harness/gen"
	"verif/harness/ref"
)

var ops = []string{"exp", "ln", "log10", "pow"}

func genCase(t *rapid.T) arith.Case {
	var c arith.Case
	c.Op = ops[gen.Pick(t, len(ops), "op")]
	c.Ctx = gen.Context(t, 60)
	if gen.Pick(t, 4, "wide") != 0 {
		// most cases in a wide exponent range so that accuracy, not range handling, is judged
		c.Ctx.Emax, c.Ctx.Emin = 1000, -1000
		if gen.Pick(t, 6, "limit") == 0 {
			c.Ctx.Emax, c.Ctx.Emin = gen.Limit, -gen.Limit
		}
	}
	arith.FillOperands(t, &c)
	if c.Op != "pow" && gen.Pick(t, 150, "highprec") == 1 { // (1, not 0: rapid draws the value 0 far more often than 1 in 300)
		// Precisions in the hundreds and thousands: the larger entries of the constant tables
		// (ln 10 is tabulated at 1, 2, 4, ... 2048 digits) and long series. Exp documents a limit
		// of 1000 series terms, reached a little above 2200 digits, so the class stops at 2100.
		switch gen.Pick(t, 3, "hpk") {
		case 0:
			c.Ctx.P = uint32(1<<uint(rapid.IntRange(6, 11).Draw(t, "hpb")) + rapid.IntRange(-4, 4).Draw(t, "hpo"))
		case 1:
			c.Ctx.P = uint32(rapid.IntRange(990, 1110).Draw(t, "hp1k"))
		default:
			c.Ctx.P = uint32(rapid.IntRange(61, 2100).Draw(t, "hpu"))
		}
		if c.Ctx.P > 2100 {
			c.Ctx.P = 2100
		}
		c.Ctx.Emax, c.Ctx.Emin = 10000, -10000
		c.X = core.Dec{Coeff: gen.Digits(t, 20, "hpx"), Exp: int32(rapid.IntRange(-25, 25).Draw(t, "hpe"))}
		if c.Op == "exp" {
			c.X.Exp = int32(rapid.IntRange(-25, 2-len(c.X.Coeff)).Draw(t, "hpee"))
			c.X.Neg = rapid.Bool().Draw(t, "hpn")
			if gen.Pick(t, 3, "hplarge") == 0 {
				// beyond the reach of the series (|x| > 23 * Precision) at precisions in the thousands
				v := rapid.IntRange(24000, 200000).Draw(t, "hplv")
				c.X = core.Dec{Coeff: fmt.Sprint(v) + gen.Digits(t, 3, "hplt"), Neg: rapid.Bool().Draw(t, "hpln")}
				c.X.Exp = -int32(len(c.X.Coeff) - len(fmt.Sprint(v)))
				c.Ctx.Emax, c.Ctx.Emin = gen.Limit, -gen.Limit
				if gen.Pick(t, 2, "hptop") == 0 {
					// the argument reduction needs ln 10 to Precision + len(k) + 4 digits: around
					// the largest tabulated entry (2048 digits) it changes where the constant comes from
					c.Ctx.P = uint32(rapid.IntRange(2030, 2060).Draw(t, "hptopp"))
				}
			} else if gen.Pick(t, 3, "hp308") == 0 {
				// precisions around 308 (where 10^-Precision leaves the float64 range) with
				// arguments of up to 200 digits just inside what still matters
				c.Ctx.P = uint32(rapid.IntRange(300, 335).Draw(t, "hp308p"))
				c.X.Coeff = gen.DigitsN(t, rapid.IntRange(1, 200).Draw(t, "hp308l"), 9, "hp308c")
				c.X.Exp = -int32(rapid.IntRange(int(c.Ctx.P)-10, int(c.Ctx.P)+2).Draw(t, "hp308e")) - int32(len(c.X.Coeff)) + 1
			} else if gen.Pick(t, 3, "hptiny") == 0 {
				// arguments down to 10^-(P+5): below 10^-308 they leave the float64 range, which
				// the term-count estimate of the series must not depend on
				c.X.Exp = -int32(rapid.IntRange(30, int(c.Ctx.P)+5).Draw(t, "hptinye"))
			}
		}
		return c
	}
	switch c.Op {
	case "exp":
		if gen.Pick(t, 14, "threshold") == 1 {
			// arguments around ln of the overflow threshold 10^(MaxExponent+1) and of the
			// underflow thresholds 10^MinExponent and 10^Etiny: "reported as overflowed or
			// underflowed only if the exact value really lies outside the range"
			emax := []int{0, 3, 96, 999, 9988, 9989, 20000, 65000, 100000}[gen.Pick(t, 9, "themax")]
			emin := -[]int{0, 3, 95, 998, 9990, 20000, 65000, 100000}[gen.Pick(t, 8, "themin")]
			if emin == -100000 && gen.Pick(t, 2, "thjit") == 0 {
				emin += rapid.IntRange(1, int(c.Ctx.P)+4).Draw(t, "thjitv") // a few units above the package limit
			}
			c.Ctx.Emax, c.Ctx.Emin = int32(emax), int32(emin)
			var k float64
			switch gen.Pick(t, 3, "thwhich") {
			case 0:
				k = float64(emax + 1)
			case 1:
				k = float64(emin)
			default:
				k = float64(emin - int(c.Ctx.P) + 1)
			}
			if gen.Pick(t, 4, "thexact") != 0 { // a quarter sit on the threshold itself (to nine decimals of x)
				k += float64(rapid.IntRange(-150, 50).Draw(t, "thd")) / 100
			}
			v := k * 2.302585092994046
			str := strconv.FormatFloat(math.Abs(v), 'f', 9, 64)
			str = strings.Replace(str, ".", "", 1)
			str = strings.TrimLeft(str, "0")
			if str == "" {
				str = "1"
			}
			c.X = core.Dec{Coeff: str, Exp: -9, Neg: v < 0}
		} else if gen.Pick(t, 10, "mult23") == 0 {
			// Exp requires |x| <= 23 * (working precision): arguments at that boundary, which
			// coincides with a context parameter, and a hair above it
			k := int(c.Ctx.P) + rapid.IntRange(-1, 2).Draw(t, "k23")
			if k < 1 {
				k = 1
			}
			c.X = core.Dec{Coeff: fmt.Sprint(23 * k), Neg: rapid.Bool().Draw(t, "n23")}
			switch gen.Pick(t, 3, "hair") {
			case 1:
				c.X.Coeff += "000000000000000000001"
				c.X.Exp = -21
			case 2:
				c.X.Coeff += "000"
				c.X.Exp = -3
			}
		} else if gen.Pick(t, 25, "nearrep") == 1 {
			// x = ln(v), to 60 places, of a value v of at most Precision digits: e^x lies within
			// 10^-55 (relative) of a representable number, so every guard digit of any working
			// precision is a zero or a nine and the final rounding of the implementation drops
			// zeros only - the result is inexact all the same, and subnormal with Underflow when v
			// is below 10^MinExponent (half the cases, down to Etiny and just beyond; |x| is
			// above 23000 for the exponent ranges from 9990 on)
			emax := []int{3, 96, 999, 9989, 20000, 65000, 100000}[gen.Pick(t, 7, "nremax")]
			emin := -[]int{0, 3, 95, 998, 9990, 10002, 20000, 65000, 100000}[gen.Pick(t, 9, "nremin")]
			c.Ctx.Emax, c.Ctx.Emin = int32(emax), int32(emin)
			p := int(c.Ctx.P)
			vd := strings.TrimLeft(gen.DigitsN(t, rapid.IntRange(1, p).Draw(t, "nrn"), 9, "nrv"), "0")
			if vd == "" {
				vd = "7"
			}
			var e int
			switch gen.Pick(t, 4, "nrwhere") {
			case 0, 1:
				e = emin - rapid.IntRange(-1, p+1).Draw(t, "nrsub")
			case 2:
				e = emax - rapid.IntRange(-1, 2).Draw(t, "nrtop")
			default:
				e = rapid.IntRange(-30, 30).Draw(t, "nrmid")
			}
			if e < -gen.Limit+100 {
				e = -gen.Limit + 100
			}
			if e > gen.Limit-100 {
				e = gen.Limit - 100
			}
			vb, _ := new(big.Int).SetString(vd, 10)
			const w = 60
			r := ref.NewFP(w).LnDec(vb, int64(e-len(vd)+1))
			c.X = core.Dec{Coeff: new(big.Int).Abs(r.Lo).String(), Exp: -w, Neg: r.Lo.Sign() < 0}
			c.Note = "nearrep"
		} else if gen.Pick(t, 400, "exptiny") == 1 {
			// tiny arguments m*10^-k at a Precision around k itself, in the tens of thousands:
			// cheap (the result is 1 + x + x^2/2 to working precision) and the region where the
			// terms of a series, numbers of Precision digits around 10^-k, have exponents beyond
			// the package limits
			k := []int{1700, 5000, 20000, 33400, 45000, 50001, 60000, 99000}[gen.Pick(t, 8, "etk")] + rapid.IntRange(0, 3).Draw(t, "etkd")
			c.X = core.Dec{Coeff: gen.DigitsN(t, rapid.IntRange(1, 5).Draw(t, "etl"), 9, "etc"), Neg: rapid.Bool().Draw(t, "etn")}
			if c.X.Coeff == "0" {
				c.X.Coeff = "7"
			}
			c.X.Exp = int32(-k - len(c.X.Coeff) + 1)
			if -k-len(c.X.Coeff)+1 < -gen.Limit {
				c.X.Exp = -gen.Limit
			}
			c.Ctx.P = uint32(k + []int{-300, -2, 0, 1, 5, 600, 1500}[gen.Pick(t, 7, "etp")])
			c.Ctx.Emax, c.Ctx.Emin = gen.Limit, -gen.Limit
			if gen.Pick(t, 3, "etr") == 0 {
				c.Ctx.Emax, c.Ctx.Emin = 1000, -1000
			}
			c.Note = "exptiny-hugeprec"
		} else if gen.Pick(t, 12, "bigarg") == 0 { // large arguments (results far from 1, over/underflow)
			v := rapid.IntRange(1000, 240000).Draw(t, "big")
			c.X = core.Dec{Coeff: fmt.Sprint(v) + gen.Digits(t, 6, "tail"), Neg: rapid.Bool().Draw(t, "bneg")}
			c.X.Exp = -int32(len(c.X.Coeff) - len(fmt.Sprint(v)))
		}
	case "ln", "log10":
		if gen.Pick(t, 20, "lnrange") == 1 {
			// results in the top decade of a tiny exponent range (MaxExponent 0..2): the logarithm
			// fits, intermediate quantities (the argument itself, k*ln 10) are far larger
			emax := gen.Pick(t, 3, "lremax")
			c.Ctx.Emax, c.Ctx.Emin = int32(emax), -int32(rapid.IntRange(0, 40).Draw(t, "lremin"))
			top := []int{4, 43, 434}[emax] // ln x < 10^(emax+1)  <=>  x < 10^(0.4343*10^(emax+1))
			if c.Op == "log10" {
				top = []int{9, 99, 999}[emax]
			}
			m := rapid.IntRange(top/2, top+1).Draw(t, "lrm")
			sd := gen.Digits(t, int(c.Ctx.P)+3, "lrd")
			if sd == "0" {
				sd = "2"
			}
			c.X = core.Dec{Coeff: sd, Exp: int32(m - len(sd) + 1)}
			if rapid.Bool().Draw(t, "lrinv") { // and the mirror image below 1
				c.X.Exp = int32(-m - len(sd) + 1)
			}
		} else if gen.Pick(t, 60, "edgehp") == 1 {
			// the switch-over points of Ln (|x-1| = 0.1 and 0.5) again, at precisions of a hundred
			// digits and more, where a threshold or guard-digit rule keyed on the precision would
			// change sides
			c.Ctx.P = uint32(rapid.IntRange(90, 140).Draw(t, "ehp"))
			c.Ctx.Emax, c.Ctx.Emin = 1000, -1000
			lead := []string{"110", "1101", "1105", "1099", "150", "1501", "1499", "90", "899", "50", "499", "501"}[gen.Pick(t, 12, "ehl")]
			sd := lead + gen.DigitsN(t, int(c.Ctx.P)+6-len(lead), 9, "ehd")
			c.X = core.Dec{Coeff: sd, Exp: int32(-(len(sd) - 1))}
			if sd[0] != '1' {
				c.X.Exp = int32(-len(sd))
			}
		} else if gen.Pick(t, 300, "tinyeps") == 1 {
			// 1 +/- 10^-k for k in the thousands and tens of thousands: the result is about
			// +/-10^-k, far inside the range, but powers of the tiny difference are not
			k := []int{1000, 5000, 20000, 33321, 33322, 33400, 45000}[gen.Pick(t, 7, "tek")] + rapid.IntRange(0, 3).Draw(t, "tekd")
			if rapid.Bool().Draw(t, "teplus") {
				c.X = core.Dec{Coeff: "1" + strings.Repeat("0", k-1) + "1", Exp: int32(-k)}
			} else {
				c.X = core.Dec{Coeff: strings.Repeat("9", k), Exp: int32(-k)}
			}
			c.X.Exp += int32(rapid.IntRange(-3, 3).Draw(t, "tej")) // ... times a small power of ten
			c.Ctx.Emax, c.Ctx.Emin = gen.Limit, -gen.Limit
			if c.Ctx.P > 30 {
				c.Ctx.P = 30
			}
			if c.Op == "ln" && gen.Pick(t, 2, "tehp") == 0 {
				c.X.Exp = int32(-k)
				// ... at a precision around the size of the difference itself: beyond it, the
				// square of the difference matters and its powers leave the exponent range
				c.Ctx.P = uint32(k + rapid.IntRange(-300, 700).Draw(t, "tehpp"))
				c.Note = "tinyeps-hugeprec"
			}
		} else if gen.Pick(t, 8, "farexp") == 0 {
			c.X.Exp += int32(rapid.IntRange(-5000, 5000).Draw(t, "far"))
		} else if gen.Pick(t, 8, "edge") == 0 {
			// just outside |x-1| <= 0.1, where Ln switches from its power series to the iteration
			s := []string{"110", "1100", "11", "89", "899", "90", "150", "15", "149", "1499", "50", "49", "499", "5000"}[gen.Pick(t, 14, "edgek")] + gen.Digits(t, int(c.Ctx.P)+4, "edgetail")
			c.X = core.Dec{Coeff: s, Exp: int32(-(len(s) - 1))}
			if s[0] != '1' {
				c.X.Exp = int32(-len(s))
			}
		}
	case "pow":
		if gen.Pick(t, 40, "atlimit") == 1 {
			// a small integer power whose exact value fits and lands within a few decades of the
			// package's exponent limits (the working context of Pow has the same limits)
			n := rapid.IntRange(1, 9).Draw(t, "aln")
			co := rapid.IntRange(1, 99).Draw(t, "alc")
			e := (gen.Limit - rapid.IntRange(0, 45).Draw(t, "alr")) / n
			if rapid.Bool().Draw(t, "allow") {
				e = -e
			} else {
				e -= 20 // leave room for the digits of the power below +100000
			}
			c.X = core.Dec{Coeff: fmt.Sprint(co), Exp: int32(e)}
			c.Y = core.Dec{Coeff: fmt.Sprint(n), Neg: gen.Pick(t, 3, "alyneg") == 0}
			c.Ctx.Emax, c.Ctx.Emin = gen.Limit, -gen.Limit
			if gen.Pick(t, 4, "alemin") == 0 {
				c.Ctx.Emin = -int32(rapid.IntRange(1000, 9000).Draw(t, "aleminv"))
			}
			if c.Ctx.P < 20 {
				c.Ctx.P = 20
			}
		} else if gen.Pick(t, 8, "bigpow") == 1 {
			// a base within 10^-k of one raised to an integer of about k digits: the result stays
			// moderate while the integer power runs through dozens of squarings
			k := rapid.IntRange(3, 25).Draw(t, "bpk") // exponents up to 25 digits (beyond 64 bits)
			m := rapid.IntRange(1, 999).Draw(t, "bpm")
			one := new(big.Int).Exp(big.NewInt(10), big.NewInt(int64(k+2)), nil)
			if rapid.Bool().Draw(t, "bpminus") {
				one.Sub(one, big.NewInt(int64(m)))
			} else {
				one.Add(one, big.NewInt(int64(m)))
			}
			c.X = core.Dec{Coeff: one.String(), Exp: int32(-(k + 2))}
			y := gen.DigitsN(t, k, 9, "bpy") // random digits
			c.Y = core.Dec{Coeff: y, Neg: gen.Pick(t, 4, "bpneg") == 0}
			if gen.Pick(t, 2, "bpfold") == 0 {
				// the same magnitude written with its zeros folded into the exponent: 2E+11
				lead := rapid.IntRange(1, 2).Draw(t, "bplead")
				if lead < len(y) {
					c.Y = core.Dec{Coeff: y[:lead], Exp: int32(len(y) - lead), Neg: c.Y.Neg}
				}
			} else if gen.Pick(t, 4, "bpfrac") == 0 { // with a fractional part as well
				c.Y.Coeff += fmt.Sprint(rapid.IntRange(1, 9).Draw(t, "bpf"))
				c.Y.Exp = -1
			}
			c.Ctx.Emax, c.Ctx.Emin = 1000, -1000
		} else if gen.Pick(t, 25, "hugeint") == 0 {
			// a small base to a huge integer power: far outside the range in either direction
			c.X = core.Dec{Coeff: []string{"2", "10", "5", "11", "3"}[gen.Pick(t, 5, "hb")], Exp: int32(-gen.Pick(t, 2, "hbe"))}
			c.Y = core.Dec{Coeff: fmt.Sprint(rapid.IntRange(90000, 500000).Draw(t, "hy")), Neg: rapid.Bool().Draw(t, "hyn")}
			c.Ctx.Emax, c.Ctx.Emin = gen.Limit, -gen.Limit
		} else if gen.Pick(t, 10, "farbase") == 0 && !c.X.Neg {
			// a base with a large decimal exponent and a fractional exponent: |y ln x| in the thousands
			c.X.Exp += int32(rapid.IntRange(-9000, 9000).Draw(t, "pfar"))
			c.Ctx.Emax, c.Ctx.Emin = gen.Limit, -gen.Limit
		}
	}
	return c
}

// enclosure of the true value as exact endpoints: lo <= true <= hi
type encl struct {
	lo, hi ref.Exact // signed via Neg
	ok     bool
}

func signedExact(v *big.Int, w, n int64) ref.Exact {
	return ref.Exact{Neg: v.Sign() < 0, Num: new(big.Int).Abs(v), Den: ref.Pow10(w), Exp: n}
}

func enclose(c arith.Case) (e encl, neg bool) {
	p := int64(c.Ctx.P)
	w := p + int64(len(c.X.Coeff)) + 30
	switch c.Op {
	case "exp":
		adj := int64(c.X.Exp) + int64(len(c.X.Coeff))
		if adj > 0 {
			w += adj
		}
		if e, ok := encloseTinyExp(c); ok {
			return e, false
		}
		f := ref.NewFP(w)
		r := f.Exp(f.FromDec(c.X.Neg, c.X.Big(), int64(c.X.Exp)))
		return encl{signedExact(r.Lo, w, r.N), signedExact(r.Hi, w, r.N), true}, false
	case "ln", "log10":
		if e, ok := encloseNearOne(c); ok {
			return e, false
		}
		// near 1 the result is tiny: |ln x| >= |x-1|/2, so extra digits = digits of 1/(x-1)
		w += int64(len(c.X.Coeff)) + 10
		f := ref.NewFP(w)
		var r ref.Iv
		if c.Op == "ln" {
			r = f.LnDec(c.X.Big(), int64(c.X.Exp))
		} else {
			r = f.Log10Dec(c.X.Big(), int64(c.X.Exp))
		}
		return encl{signedExact(r.Lo, w, 0), signedExact(r.Hi, w, 0), true}, false
	case "pow":
		w += 2*int64(len(c.Y.Coeff)) + int64(len(c.X.Coeff)) + 20
		adjy := int64(c.Y.Exp) + int64(len(c.Y.Coeff))
		if adjy > 0 {
			w += 2 * adjy
		}
		f := ref.NewFP(w)
		lnx := f.LnDec(c.X.Big(), int64(c.X.Exp)) // |x|
		y := f.FromDec(c.Y.Neg, c.Y.Big(), int64(c.Y.Exp))
		r := f.Exp(f.Mul(y, lnx))
		return encl{signedExact(r.Lo, w, r.N), signedExact(r.Hi, w, r.N), true}, false
	}
	return encl{}, false
}

// encloseTinyExp handles Exp of a tiny argument at a precision in the thousands without a
// series at that precision: e^x = 1 + x + x^2/2 + t with |t| <= |x|^3/5 for |x| < 0.1, and
// 1 + x + x^2/2 = 5*(2*10^(-2e) + 2m*10^-e + m^2) * 10^(2e-1) exactly for x = m*10^e.
func encloseTinyExp(c arith.Case) (encl, bool) {
	p := int64(c.Ctx.P)
	e := int64(c.X.Exp)
	m := c.X.Big()
	nd := ref.NDigits(m)
	adj := e + nd - 1
	if p < 1500 || e >= 0 || 3*adj+3 > -(p+12) {
		return encl{}, false
	}
	if c.X.Neg {
		m.Neg(m)
	}
	n := new(big.Int).Lsh(ref.Pow10(-2*e), 1)
	n.Add(n, new(big.Int).Lsh(new(big.Int).Mul(m, ref.Pow10(-e)), 1))
	n.Add(n, new(big.Int).Mul(m, m))
	n.Mul(n, big.NewInt(5))
	ex := 2*e - 1
	sl := e + 3*nd + 1 // exponent of the slack 10^(3*adj+3) relative to ex
	if sl < 0 {
		n.Mul(n, ref.Pow10(-sl))
		ex += sl
		sl = 0
	}
	slack := ref.Pow10(sl)
	return encl{signedExact(new(big.Int).Sub(n, slack), 0, ex), signedExact(new(big.Int).Add(n, slack), 0, ex), true}, true
}

// encloseNearOne handles x = 1 + d with |d| < 10^-(P+12) without thousands of digits of
// working precision: ln(1+d) lies in [d - d^2, d] for |d| < 1/2 (both signs), so with
// D = d*10^k scaled into [1, 10) the value is D*10^-k with a relative slack far below one
// unit of the result; Log10 divides that by an enclosure of ln 10.
func encloseNearOne(c arith.Case) (encl, bool) {
	p := int64(c.Ctx.P)
	// x = 10^j * (1 + d): j is the adjusted exponent of x, or one more when x is 0.99...
	nx := ref.NDigits(c.X.Big())
	j := int64(c.X.Exp) + nx - 1
	if c.X.Coeff[0] == '9' {
		j++
	}
	xexp := int64(c.X.Exp) - j // exponent of x/10^j
	// d = x/10^j - 1 exactly: coefficient - 10^-xexp at exponent xexp (xexp < 0 here)
	if xexp >= 0 {
		return encl{}, false
	}
	d := c.X.Big()
	d.Sub(d, ref.Pow10(-xexp))
	if d.Sign() == 0 {
		return encl{}, false
	}
	nd := ref.NDigits(new(big.Int).Abs(d))
	adj := xexp + nd - 1
	if adj > -(p + 12) {
		if j == 0 && c.Op == "ln" && 2*adj <= -(p+13) && nd+(-xexp) > 3000 {
			// second order, for a tiny difference at a precision beyond its own size
			// (Ln(1+1E-33400) at Precision 34000): ln(1+d) = d - d^2/2 + t with
			// |t| <= |d|^3/2 < 10^(3*adj+3), at most 10^-10 units of the result's last place.
			// d - d^2/2 = 5*m*(2*10^-xexp - m) * 10^(2*xexp-1) exactly, m the coefficient of d.
			n := new(big.Int).Lsh(ref.Pow10(-xexp), 1)
			n.Sub(n, d).Mul(n, d).Mul(n, big.NewInt(5))
			e := 2*xexp - 1
			sl := xexp + 3*nd + 1 // exponent of the slack relative to e
			if sl < 0 {
				n.Mul(n, ref.Pow10(-sl))
				e += sl
				sl = 0
			}
			slack := ref.Pow10(sl)
			lo, hi := new(big.Int).Sub(n, slack), new(big.Int).Add(n, slack)
			return encl{signedExact(lo, 0, e), signedExact(hi, 0, e), true}, true
		}
		return encl{}, false
	}
	if j != 0 {
		// ln x = j*ln 10 + ln(1+d) with |ln(1+d)| < 10^-(p+11): the second term is far below
		// the last digit of the first; a plain fixed-point enclosure of j*ln 10 widened by
		// that much does
		w := p + 40
		f := ref.NewFP(w)
		r := f.MulInt(f.Ln10(), j)
		slack := ref.Pow10(w - p - 10)
		r = ref.Iv{Lo: new(big.Int).Sub(r.Lo, slack), Hi: new(big.Int).Add(r.Hi, slack)}
		if c.Op == "log10" {
			r = f.Div(r, f.Ln10())
		}
		return encl{signedExact(r.Lo, w, 0), signedExact(r.Hi, w, 0), true}, true
	}
	w := p + 40
	f := ref.NewFP(w)
	// keep the leading w+5 digits of d (the rest is below the slack added next)
	mant, mexp := new(big.Int).Abs(d), xexp
	if nd > w+5 {
		cut := nd - (w + 5)
		mant.Quo(mant, ref.Pow10(cut))
		mexp += cut
	}
	D := f.FromDec(d.Sign() < 0, mant, mexp-adj) // |D| in [1, 10)
	slack := ref.Pow10(w - p - 10)                // 10^-(p+10): covers d^2 and the truncated tail
	r := ref.Iv{Lo: new(big.Int).Sub(D.Lo, slack), Hi: new(big.Int).Add(D.Hi, slack)}
	if c.Op == "log10" {
		r = f.Div(r, f.Ln10())
	}
	return encl{signedExact(r.Lo, w, adj), signedExact(r.Hi, w, adj), true}, true
}

// cmpSigned compares the signed values a and b exactly.
func cmpSigned(a, b ref.Exact) int {
	sa, sb := sgn(a), sgn(b)
	if sa != sb {
		if sa < sb {
			return -1
		}
		return 1
	}
	if sa == 0 {
		return 0
	}
	// |a| ? |b| : a.Num/a.Den*10^a.Exp vs b.Num/b.Den*10^b.Exp
	l := new(big.Int).Mul(a.Num, b.Den)
	r := new(big.Int).Mul(b.Num, a.Den)
	m := ref.CmpMag(l, a.Exp, r, b.Exp)
	return m * sa
}

func sgn(a ref.Exact) int {
	if a.Num.Sign() == 0 {
		return 0
	}
	if a.Neg {
		return -1
	}
	return 1
}

// addUlp returns a + k*10^uexp (k = +1 or -1) exactly.
func addUlp(a ref.Exact, k int, uexp int64) ref.Exact {
	e := a.Exp
	if uexp < e {
		e = uexp
	}
	num := new(big.Int).Mul(a.Num, ref.Pow10(a.Exp-e))
	if a.Neg {
		num.Neg(num)
	}
	u := new(big.Int).Mul(a.Den, ref.Pow10(uexp-e))
	if k < 0 {
		u.Neg(u)
	}
	num.Add(num, u)
	return ref.Exact{Neg: num.Sign() < 0, Num: num.Abs(num), Den: a.Den, Exp: e}
}

func resultExact(d *apd.Decimal) ref.Exact {
	return ref.Exact{Neg: d.Negative, Num: d.Coeff.MathBigInt(), Den: big.NewInt(1), Exp: int64(d.Exponent)}
}

func fromResult(r ref.Result) ref.Exact {
	return ref.Exact{Neg: r.Neg, Num: r.Coeff, Den: big.NewInt(1), Exp: r.Exp}
}

func isNearest(mode string) bool {
	switch ref.Mode(mode) {
	case "half_up", "half_even", "half_down":
		return true
	}
	return false
}

func absF(c core.Dec) float64 {
	f, _ := new(big.Float).SetInt(c.Big()).Float64()
	return f * math.Pow(10, float64(c.Exp))
}

func check(c arith.Case, st *core.Stats) error {
	if c.Ctx.P == 0 || c.X.Form != 0 || (c.Op == "pow" && c.Y.Form != 0) {
		return nil
	}
	st.Class("op:" + c.Op)
	xZero := c.X.IsZero()
	// domain
	switch c.Op {
	case "ln", "log10":
		if xZero || c.X.Neg {
			return nil
		}
	case "pow":
		if xZero {
			return nil
		}
	}
	var o arith.Out
	core.Guard(st, func() { o = arith.Exec(c) })
	limit := arith.NearLimit(c, nil)
	desc := fmt.Sprintf("%v: got %s flags=%s err=%v", c, core.Show(o.D), core.FlagStr(o.Res), o.Err)

	// exactness by definition
	one := ref.Result{Form: apd.Finite, Coeff: big.NewInt(1)}
	exactWant := func(r ref.Result, what string) error {
		st.NonTrivial("exact:" + what)
		if o.Err != nil {
			if limit {
				return nil
			}
			return fmt.Errorf("%s; %s must be returned exactly as %v", desc, what, r)
		}
		if !ref.SameValue(o.D, r) {
			return fmt.Errorf("%s; %s must be returned exactly as %v", desc, what, r)
		}
		return nil
	}
	switch c.Op {
	case "exp":
		if xZero {
			return exactWant(one, "exp(0)")
		}
	case "ln", "log10":
		if ref.CmpMag(c.X.Big(), int64(c.X.Exp), big.NewInt(1), 0) == 0 {
			r := ref.ZeroResult(false)
			st.NonTrivial("exact:log(1)")
			if o.Err != nil || o.D.Form != apd.Finite || o.D.Coeff.Sign() != 0 {
				return fmt.Errorf("%s; %s(1) must be exactly 0", desc, c.Op)
			}
			_ = r
			return nil
		}
	case "pow":
		if c.Y.IsZero() {
			return exactWant(one, "x**0")
		}
		yInt, yVal := intValue(c.Y)
		if c.X.Neg && !yInt {
			return nil // InvalidOperation: C08
		}
		if yInt && yVal != nil && yVal.Cmp(big.NewInt(1)) == 0 {
			return exactWant(ref.RoundOrZero(ref.FromDec(c.X), c.Ctx), "x**1 (= Round(x))")
		}
		if yInt && yVal != nil && yVal.Sign() > 0 && yVal.Cmp(big.NewInt(64)) <= 0 {
			// exact integer power when its value fits the precision
			pw := new(big.Int).Exp(c.X.Big(), yVal, nil)
			ex := ref.Exact{Neg: c.X.Neg && yVal.Bit(0) == 1, Num: pw, Den: big.NewInt(1), Exp: int64(c.X.Exp) * yVal.Int64()}
			r := ref.RoundOrZero(ex, c.Ctx)
			if !r.Inexact && r.Form == apd.Finite && !r.Sub {
				return exactWant(r, "integer power whose exact value fits")
			}
		}
	}

	en, _ := enclose(c)
	if !en.ok {
		return nil
	}
	neg := false
	if c.Op == "pow" && c.X.Neg {
		yInt, yVal := intValue(c.Y)
		if !yInt || yVal == nil {
			return nil
		}
		neg = yVal.Bit(0) == 1
	}
	if neg { // mirror the enclosure
		en.lo, en.hi = ref.Exact{Neg: !en.hi.Neg, Num: en.hi.Num, Den: en.hi.Den, Exp: en.hi.Exp}, ref.Exact{Neg: !en.lo.Neg, Num: en.lo.Num, Den: en.lo.Den, Exp: en.lo.Exp}
	}
	if cmpSigned(en.lo, en.hi) > 0 {
		return fmt.Errorf("HARNESS: inverted enclosure for %v", c)
	}
	p := int64(c.Ctx.P)
	etiny := int64(c.Ctx.Emin) - p + 1
	// magnitudes bounds of the true value
	magLo, magHi := en.lo, en.hi
	if sgn(en.hi) < 0 || (sgn(en.lo) < 0 && sgn(en.hi) <= 0) {
		magLo, magHi = en.hi, en.lo
	}
	if sgn(en.lo) < 0 && sgn(en.hi) > 0 {
		return nil // enclosure straddles zero: cannot happen away from ln(1), not judged
	}
	mags := func(e ref.Exact) ref.Exact { return ref.Exact{Num: e.Num, Den: e.Den, Exp: e.Exp} }
	magLo, magHi = mags(magLo), mags(magHi)
	if magLo.Num.Sign() == 0 {
		return nil
	}
	adjT := ref.AdjExp(magHi)
	maxFiniteMinusUlp := ref.Exact{Num: new(big.Int).Sub(ref.Pow10(p), big.NewInt(2)), Den: big.NewInt(1), Exp: int64(c.Ctx.Emax) - p + 1}
	trueOverflows := cmpSigned(magLo, ref.Exact{Num: big.NewInt(1), Den: big.NewInt(1), Exp: int64(c.Ctx.Emax) + 1}) >= 0
	mayOverflow := cmpSigned(magHi, maxFiniteMinusUlp) > 0
	mayUnderflow := cmpSigned(magLo, addUlp(ref.Exact{Num: big.NewInt(1), Den: big.NewInt(1), Exp: int64(c.Ctx.Emin)}, 1, etiny)) < 0

	d25pow := func() bool { // Pow reaches the same limit through its inner Exp of frac(y)*ln|x|
		if c.Op != "pow" {
			return false
		}
		lnx := (float64(c.X.Exp) + float64(len(c.X.Coeff))) * 2.302585093
		fy := absF(c.Y)
		fy -= math.Floor(fy)
		return math.Abs(fy*lnx) >= 22000 && st.Tolerate("D25")
	}
	d25 := func() bool { // known finding: Exp gives up (Overflow/Underflow) for |x| > 23*max(P, ceil(|x|/23)) once |x|/23 >= 1000
		if d25pow() {
			return true
		}
		return c.Op == "exp" && absF(c.X) >= 22999 && st.Tolerate("D25")
	}
	if adjT > gen.Limit-2000 || adjT < -gen.Limit+2000 {
		limit = true // the true value itself sits at the package exponent limits
	}
	if o.Err != nil {
		// even with an error the reported direction must be right: Overflow only for a
		// value above the range, Underflow only for one below it
		if o.Res.Overflow() && adjT < 0 {
			return fmt.Errorf("%s; reported Overflow, but the true value is below 1 (in [%v, %v])", desc, en.lo, en.hi)
		}
		if o.Res.Underflow() && adjT > 0 {
			return fmt.Errorf("%s; reported Underflow, but the true value is above 1 (in [%v, %v])", desc, en.lo, en.hi)
		}
		if limit || trueOverflows || mayOverflow || mayUnderflow {
			st.Class("error-at-range-edge")
			return nil
		}
		if d25() {
			return nil
		}
		return fmt.Errorf("%s; unexpected error, the true value lies in [%v, %v]", desc, en.lo, en.hi)
	}
	longOp := int64(len(c.X.Coeff)) > p || (c.Op == "pow" && int64(len(c.Y.Coeff)) > p)
	label := c.Op
	if longOp {
		label += ":operand-longer-than-P"
	}
	if !isNearest(c.Ctx.Rounding) {
		label += ":directed"
	}
	if o.D.Form == apd.Infinite {
		st.Class("overflow-reported")
		if !mayOverflow {
			if d25() {
				return nil
			}
			return fmt.Errorf("%s; reported as overflowed but the true value lies in [%v, %v], inside the range", desc, en.lo, en.hi)
		}
		if o.D.Negative != (sgn(en.hi) < 0) {
			return fmt.Errorf("%s; infinity of the wrong sign", desc)
		}
		return nil
	}
	if o.D.Form != apd.Finite {
		return fmt.Errorf("%s; expected a finite value in [%v, %v]", desc, en.lo, en.hi)
	}
	if o.Res.Underflow() && !mayUnderflow {
		if d25() {
			return nil
		}
		return fmt.Errorf("%s; reported Underflow but the true value lies in [%v, %v], inside the normal range", desc, en.lo, en.hi)
	}
	if trueOverflows {
		// only the largest finite number (directed rounding towards zero) is acceptable
		st.Class("true-value-overflows")
		mx := ref.Exact{Num: new(big.Int).Sub(ref.Pow10(p), big.NewInt(1)), Den: big.NewInt(1), Exp: int64(c.Ctx.Emax) - p + 1}
		if cmpSigned(mags(resultExact(o.D)), mx) != 0 {
			return fmt.Errorf("%s; the true value overflows the range", desc)
		}
		return nil
	}
	if c.Note == "nearrep" {
		st.Class("exp-of-ln-of-a-representable-value")
	}
	if p > 60 {
		st.Class("precision>60")
		if p > 1000 {
			st.Class("precision>1000")
		}
		if c.Note == "exptiny-hugeprec" {
			st.Class("exp-tiny-argument-at-precision-around-its-size")
		}
		if c.Note == "tinyeps-hugeprec" {
			st.Class("ln-near-one-at-precision-beyond-the-difference")
		}
	}
	// conditions that follow from the value: a transcendental result is never exact (the exact
	// cases were handled above; integer powers may be), and Subnormal goes with a result below
	// 10^MinExponent
	yInt2, _ := intValue(c.Y)
	if !(c.Op == "pow" && yInt2) && (!o.Res.Inexact() || !o.Res.Rounded()) {
		return fmt.Errorf("%s; an inexact result must carry Inexact and Rounded", desc)
	}
	if o.D.Coeff.Sign() != 0 {
		adjRes := int64(o.D.Exponent) + ref.NDigits(o.D.Coeff.MathBigInt()) - 1
		if adjRes < int64(c.Ctx.Emin) && !o.Res.Subnormal() {
			return fmt.Errorf("%s; the result is below 10^MinExponent but Subnormal is not raised", desc)
		}
		// The true value below 10^MinExponent by more than a tenth of a unit of the last place:
		// the result is subnormal by definition, even when it rounds up to 10^MinExponent
		// itself. (Closer to the boundary than that, an implementation that is only required to
		// be accurate to a unit cannot be asked to know the side.)
		if cmpSigned(magHi, addUlp(ref.Exact{Num: big.NewInt(1), Den: big.NewInt(1), Exp: int64(c.Ctx.Emin)}, -1, int64(c.Ctx.Emin)-p-1)) < 0 {
			st.Class("true-value-subnormal")
			if !o.Res.Subnormal() || (o.Res.Inexact() && !o.Res.Underflow()) {
				return fmt.Errorf("%s; the true value, in [%v, %v], is below 10^MinExponent: Subnormal (and, being inexact, Underflow) must be raised", desc, en.lo, en.hi)
			}
		}
		if adjT > int64(c.Ctx.Emin) && o.Res.Subnormal() {
			return fmt.Errorf("%s; Subnormal raised although the true value, in [%v, %v], is above 10^MinExponent", desc, en.lo, en.hi)
		}
	}
	st.NonTrivial(label)
	// unit in the last place: lenient at powers of ten (the larger adjusted exponent)
	adjR := int64(o.D.Exponent) + ref.NDigits(o.D.Coeff.MathBigInt()) - 1
	a := adjT
	if o.D.Coeff.Sign() != 0 && adjR > a {
		a = adjR
	}
	uexp := a - p + 1
	if uexp < etiny {
		uexp = etiny
		st.Class("subnormal-result")
	}
	r := resultExact(o.D)
	var lo, hi ref.Exact
	if isNearest(c.Ctx.Rounding) {
		lo, hi = addUlp(en.lo, -1, uexp), addUlp(en.hi, 1, uexp)
	} else {
		// Directed modes (up, down, ceiling, floor, 05up): a directed rounding of an
		// approximation that is itself within a tenth of an ulp of the truth lands up to 1.1
		// ulp away (05up even jumps by two units when the approximation crosses a multiple of
		// five), so the bound is one unit plus a tenth; demanding 1.000 would flag what the
		// statement tolerates ("one unit in the last place of a Precision-digit result").
		lo, hi = addUlp(addUlp(en.lo, -1, uexp), -1, uexp-1), addUlp(addUlp(en.hi, 1, uexp), 1, uexp-1)
	}
	if cmpSigned(r, lo) < 0 || cmpSigned(r, hi) > 0 {
		if d25() {
			return nil
		}
		return fmt.Errorf("%s; more than one unit (10^%d) in the last place from the true value, which lies in [%v, %v]", desc, uexp, en.lo, en.hi)
	}
	return nil
}

// roundSigned rounds an exact signed value to the context (no overflow handling needed here).
func roundSigned(e ref.Exact, ctx core.Ctx) ref.Exact {
	if e.Num.Sign() == 0 {
		return e
	}
	ctx.Emax = gen.Limit * 10 // range effects are judged separately
	r := ref.Round(e, ctx)
	return fromResult(r)
}

// intValue reports whether d is an integer and, if it is small enough, its value.
func intValue(d core.Dec) (bool, *big.Int) {
	v := d.Big()
	if d.Exp >= 0 {
		if d.Exp > 400 {
			return true, nil
		}
		v.Mul(v, ref.Pow10(int64(d.Exp)))
	} else {
		q, r := new(big.Int).QuoRem(v, ref.Pow10(-int64(d.Exp)), new(big.Int))
		if r.Sign() != 0 {
			return false, nil
		}
		v = q
	}
	if d.Neg {
		v.Neg(v)
	}
	return true, v
}

// enumerated covers the places where an argument or 10^-Precision leaves the range of a float64
// (1E-308 normal, 5E-324 denormal): a working quantity computed in float64 changes character
// there, at one or two precisions and over a decade or two of arguments, which a uniform draw of
// Precision and exponent meets only once in thousands of cases of the high-precision class.
func enumerated() []arith.Case {
	var out []arith.Case
	for _, p := range []uint32{306, 307, 308, 309, 310, 322, 323, 324, 325} {
		for dk := -3; dk <= 1; dk++ {
			for _, co := range []string{"1", "17", "5"} {
				for _, neg := range []bool{false, true} {
					out = append(out, arith.Case{Op: "exp",
						Ctx:  core.Ctx{P: p, Emax: 1000, Emin: -1000, Rounding: "half_even"},
						X:    core.Dec{Coeff: co, Exp: -int32(int(p) + dk) - int32(len(co)) + 1, Neg: neg},
						Note: "f64edge"})
				}
			}
		}
	}
	return out
}

func TestC12(t *testing.T)       { selfCheck(t); core.RunPre(t, "C12", enumerated(), genCase, check) }
func TestC12Replay(t *testing.T) { core.Replay(t, "C12", check) }

// selfCheck validates the enclosures against known digits before they are trusted.
func selfCheck(t *testing.T) {
	f := ref.NewFP(60)
	known := map[string]struct {
		iv  ref.Iv
		dig string
	}{
		"ln2":  {f.Ln2(), "693147180559945309417232121458176568075500134360255254120680"},
		"ln10": {f.Ln10(), "2302585092994045684017991454684364207601101488628772976033327"},
	}
	for name, k := range known {
		want, _ := new(big.Int).SetString(k.dig, 10)
		if want.Cmp(k.iv.Lo) < 0 || want.Cmp(new(big.Int).Add(k.iv.Hi, big.NewInt(1))) > 0 || new(big.Int).Sub(k.iv.Hi, k.iv.Lo).Cmp(big.NewInt(1000)) > 0 {
			t.Fatalf("INFRA: enclosure self-check failed for %s: [%s, %s] vs %s", name, k.iv.Lo, k.iv.Hi, want)
		}
	}
	e := f.Exp(f.FromDec(false, big.NewInt(1), 0))
	want, _ := new(big.Int).SetString("2718281828459045235360287471352662497757247093699959574966967", 10)
	if e.N != 0 || want.Cmp(e.Lo) < 0 || want.Cmp(new(big.Int).Add(e.Hi, big.NewInt(1))) > 0 || new(big.Int).Sub(e.Hi, e.Lo).Cmp(big.NewInt(1000000)) > 0 {
		t.Fatalf("INFRA: enclosure self-check failed for e: N=%d [%s, %s] vs %s", e.N, e.Lo, e.Hi, want)
	}
	// exp(ln x) contains x; agreement with math.Exp/Log
	for _, x := range []int64{2, 3, 7, 10, 12345} {
		l := f.LnDec(big.NewInt(x), 0)
		r := f.Exp(l)
		xs := new(big.Int).Mul(big.NewInt(x), f.S)
		lo := new(big.Int).Mul(r.Lo, ref.Pow10(maxI(r.N, 0)))
		hi := new(big.Int).Mul(r.Hi, ref.Pow10(maxI(r.N, 0)))
		xs.Mul(xs, ref.Pow10(maxI(-r.N, 0)))
		if xs.Cmp(lo) < 0 || xs.Cmp(hi) > 0 {
			t.Fatalf("INFRA: exp(ln %d) does not contain %d", x, x)
		}
		lf, _ := new(big.Float).Quo(new(big.Float).SetInt(l.Lo), new(big.Float).SetInt(f.S)).Float64()
		if math.Abs(lf-math.Log(float64(x))) > 1e-13*math.Log(float64(x))+1e-14 {
			t.Fatalf("INFRA: ln %d = %v disagrees with math.Log", x, lf)
		}
	}
}

func maxI(a, b int64) int64 {
	if a > b {
		return a
	}
	return b
}
