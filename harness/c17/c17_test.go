// C17: integer and float conversions and Modf are exact. Oracle: math/big reference
// arithmetic (big.Int range tests, big.Rat.Float64 nearest-even, exact re-addition).
package c17

import (
	"fmt"
	"math"
	"math/big"
	"strconv"
	"strings"
	"testing"

	"github.com/cockroachdb/apd/v3"
	"pgregory.net/rapid"
	"verif/harness/core"
	"verif/harness/gen"
	"verif/harness/pyref"
	"verif/harness/ref"
)

type Case struct {
	Kind  string   `json:"kind"` // int64 | setint | float64 | modf
	X     core.Dec `json:"x"`
	V     int64    `json:"v"`
	E     int32    `json:"e"`
	Which int      `json:"which"` // modf: 0 both, 1 integ only, 2 frac only; setint: constructor
	Dirty core.Dec `json:"dirty"`
}

var ctx = core.Ctx{P: 20, Emax: 400, Emin: -400}

func boundaryInt(t *rapid.T) *big.Int {
	var v *big.Int
	switch gen.Pick(t, 6, "bk") {
	case 0:
		v = new(big.Int).Lsh(big.NewInt(1), 63)
	case 1:
		v = new(big.Int).Lsh(big.NewInt(1), 64)
	case 2:
		v = new(big.Int).Lsh(big.NewInt(1), uint(rapid.IntRange(0, 70).Draw(t, "bits")))
	case 3:
		v, _ = new(big.Int).SetString(gen.Digits(t, 22, "v"), 10)
	case 4:
		v = big.NewInt(0)
	default:
		v = new(big.Int).SetUint64(rapid.Uint64().Draw(t, "u"))
	}
	v.Add(v, big.NewInt(int64(rapid.IntRange(-2, 2).Draw(t, "bd"))))
	if v.Sign() < 0 {
		v.Neg(v)
	}
	return v
}

func genCase(t *rapid.T) Case {
	var c Case
	c.Kind = []string{"int64", "int64", "setint", "float64", "float64", "modf", "modf", "newbig"}[gen.Pick(t, 8, "kind")]
	switch c.Kind {
	case "int64":
		v := boundaryInt(t)
		// express v*10^k / 10^k with trailing zeros or a fractional tail
		switch gen.Pick(t, 5, "shape") {
		case 0: // integer with k trailing zeros moved into the coefficient
			k := rapid.IntRange(0, 25).Draw(t, "k")
			c.X = core.Dec{Coeff: new(big.Int).Mul(v, ref.Pow10(int64(k))).String(), Exp: int32(-k)}
		case 1: // trailing zeros stripped into a positive exponent
			s := strings.TrimRight(v.String(), "0")
			if s == "" {
				s = "0"
			}
			c.X = core.Dec{Coeff: s, Exp: int32(len(v.String()) - len(s))}
			if s == "0" {
				c.X.Exp = int32(rapid.IntRange(-30, 60).Draw(t, "ze"))
			}
		case 2: // fractional part present
			k := rapid.IntRange(1, 10).Draw(t, "k")
			w := new(big.Int).Mul(v, ref.Pow10(int64(k)))
			w.Add(w, big.NewInt(int64(rapid.IntRange(1, 9).Draw(t, "frac"))))
			c.X = core.Dec{Coeff: w.String(), Exp: int32(-k)}
		case 3: // positive exponent pushing the value around the boundary
			k := rapid.IntRange(0, 22).Draw(t, "k")
			q := new(big.Int).Quo(v, ref.Pow10(int64(k)))
			c.X = core.Dec{Coeff: q.String(), Exp: int32(k)}
		default:
			c.X = gen.Finite(t, ctx, "x")
		}
		c.X.Neg = rapid.Bool().Draw(t, "neg")
		if gen.Pick(t, 30, "special") == 0 {
			c.X = gen.Special(t, "sp")
		}
	case "newbig":
		// NewWithBigInt of coefficients of any size and sign; X.Coeff carries |b|, X.Neg its sign
		c.X = core.Dec{Coeff: gen.DigitsN(t, rapid.IntRange(1, 90).Draw(t, "nbl"), gen.Pick(t, 10, "nbs"), "nb"), Neg: rapid.Bool().Draw(t, "nbneg")}
		c.E = int32(rapid.IntRange(-gen.Limit, gen.Limit).Draw(t, "e"))
	case "setint":
		switch gen.Pick(t, 4, "vk") {
		case 0:
			c.V = []int64{math.MinInt64, math.MaxInt64, math.MinInt64 + 1, -1, 0, 1, math.MaxInt32, math.MinInt32}[gen.Pick(t, 8, "vb")]
		default:
			c.V = rapid.Int64().Draw(t, "v")
		}
		c.E = int32(rapid.IntRange(-gen.Limit, gen.Limit).Draw(t, "e"))
		c.Which = gen.Pick(t, 4, "ctor")
		c.Dirty = gen.Any(t, ctx, "dirty")
	case "float64":
		c.X = gen.Finite(t, ctx, "x")
		switch gen.Pick(t, 6, "fk") {
		case 0: // long coefficient near a midpoint between two floats: 2^53+1 with a tail
			base := new(big.Int).Lsh(big.NewInt(1), uint(rapid.IntRange(53, 64).Draw(t, "b")))
			base.Add(base, new(big.Int).Lsh(big.NewInt(1), uint(rapid.IntRange(0, 10).Draw(t, "h"))))
			k := rapid.IntRange(0, 12).Draw(t, "k")
			if gen.Pick(t, 3, "fartail") == 0 {
				k = rapid.IntRange(13, 80).Draw(t, "kfar") // the deciding digit dozens of places out
				if gen.Pick(t, 3, "veryfar") == 0 {
					// ... or many hundreds: strconv's decimal buffer holds 800 digits and only
					// remembers that something non-zero followed
					k = rapid.IntRange(700, 1300).Draw(t, "kveryfar")
				}
			}
			w := new(big.Int).Mul(base, ref.Pow10(int64(k)))
			w.Add(w, big.NewInt(int64(rapid.IntRange(-1, 1).Draw(t, "d"))))
			c.X = core.Dec{Coeff: w.String(), Exp: int32(-k + rapid.IntRange(-3, 3).Draw(t, "sh")), Neg: rapid.Bool().Draw(t, "neg")}
		case 1: // from a real float64, perturbed in a far digit
			f := math.Float64frombits(rapid.Uint64().Draw(t, "bits"))
			if math.IsNaN(f) || math.IsInf(f, 0) {
				f = 1.5
			}
			r := new(big.Rat).SetFloat64(f)
			// r = num/den with den a power of two: exact decimal expansion
			num, den := new(big.Int).Abs(r.Num()), r.Denom()
			k := int64(den.BitLen() - 1)
			if k > 340 {
				k = 340
			}
			w := new(big.Int).Mul(num, ref.Pow10(k))
			w.Quo(w, den)
			c.X = core.Dec{Coeff: w.String(), Exp: int32(-k), Neg: f < 0}
		case 2: // around the overflow / underflow thresholds
			c.X.Exp = int32(rapid.SampledFrom([]int{308, 309, 310, -323, -324, -325, -330, 400, -400, 5000, -5000}).Draw(t, "fe") - len(c.X.Coeff) + 1)
		}
	case "modf":
		c.X = gen.Finite(t, ctx, "x")
		if gen.Pick(t, 8, "mlong") == 0 { // hundreds to thousands of digits
			c.X.Coeff = gen.DigitsN(t, rapid.IntRange(300, 2500).Draw(t, "ml"), gen.Pick(t, 10, "ms"), "mlc")
		}
		nd := len(c.X.Coeff)
		c.X.Exp = int32(rapid.IntRange(-nd-3, 3).Draw(t, "mexp"))
		if gen.Pick(t, 3, "mnear") == 0 { // the point next to the first digit: value in [0.01, 1000)
			c.X.Exp = int32(-nd + rapid.IntRange(-2, 3).Draw(t, "mn"))
		}
		c.Which = gen.Pick(t, 3, "which")
		c.Dirty = gen.Any(t, ctx, "dirty")
	}
	return c
}

var (
	maxI64 = big.NewInt(math.MaxInt64)
	minI64 = big.NewInt(math.MinInt64)
)

func check(c Case, st *core.Stats) error {
	st.Class(c.Kind)
	switch c.Kind {
	case "int64":
		x := c.X.Apd()
		var got int64
		var err error
		core.Guard(st, func() { got, err = x.Int64() })
		if !core.SameFields(x, c.X.Apd()) {
			return fmt.Errorf("Int64(%v) modified its receiver to %s", c.X, core.Show(x))
		}
		// the ErrDecimal wrapper performs the same conversion
		{
			ed := apd.MakeErrDecimal(apd.BaseContext.WithPrecision(9))
			var ev int64
			core.Guard(st, func() { ev = ed.Int64(c.X.Apd()) })
			if (ed.Err() == nil) != (err == nil) || (err == nil && ev != got) {
				return fmt.Errorf("ErrDecimal.Int64(%v) = %d err=%v, Decimal.Int64 = %d err=%v", c.X, ev, ed.Err(), got, err)
			}
		}
		if c.X.Form != 0 {
			if err == nil {
				return fmt.Errorf("Int64(%v) = %d, want an error for a non-finite value", c.X, got)
			}
			return nil
		}
		// exact: integer iff coeff*10^exp has no fractional part
		v := c.X.Big()
		integral := true
		if c.X.Exp >= 0 {
			v.Mul(v, ref.Pow10(int64(c.X.Exp)))
		} else {
			q, r := new(big.Int).QuoRem(v, ref.Pow10(-int64(c.X.Exp)), new(big.Int))
			integral = r.Sign() == 0
			v = q
		}
		if c.X.Neg {
			v.Neg(v)
		}
		inRange := v.Cmp(minI64) >= 0 && v.Cmp(maxI64) <= 0
		near := new(big.Int).Abs(v)
		if near.BitLen() >= 60 && near.BitLen() <= 67 {
			st.NonTrivial("near-2^63")
		} else if !integral {
			st.NonTrivial("fractional")
		}
		if c.X.IsZero() && c.X.Exp > 18 {
			st.Class("zero-with-large-exponent")
		}
		if integral && inRange {
			if err != nil || got != v.Int64() {
				return fmt.Errorf("Int64(%v) = %d, %v; want %s exactly", c.X, got, err, v)
			}
		} else if err == nil {
			return fmt.Errorf("Int64(%v) = %d without error; the value is %s (integral=%v) and must be rejected", c.X, got, v, integral)
		}
	case "newbig":
		// the argument in each of its representations (core.Dec.Apd spreads them)
		b := &c.X.Apd().Coeff
		mag := c.X.Big()
		want := new(big.Int).Set(mag)
		if c.X.Neg {
			b.Neg(b)
			want.Neg(want)
		}
		d := apd.NewWithBigInt(b, c.E)
		if len(c.X.Coeff) >= 39 {
			st.NonTrivial("heap-coefficient")
		} else if len(c.X.Coeff) >= 20 {
			st.NonTrivial("two-word-coefficient")
		}
		bad := func(when string) error {
			return fmt.Errorf("NewWithBigInt(%s, %d) %s: decimal %s, argument %s", want, c.E, when, core.Show(d), b.String())
		}
		ok := func() bool {
			return d.Form == apd.Finite && d.Negative == (want.Sign() < 0) && d.Exponent == c.E && d.Coeff.Sign() >= 0 && d.Coeff.MathBigInt().Cmp(mag) == 0
		}
		if !ok() || b.MathBigInt().Cmp(want) != 0 {
			return bad("does not represent its argument (or changed it)")
		}
		// the decimal owns its coefficient: changing the argument in place afterwards must not
		// reach it, and changing the coefficient must not reach the argument
		b.Mul(b, b)
		b.Add(b, apd.NewBigInt(1))
		if !ok() {
			return bad("changed after the argument was modified in place")
		}
		after := new(big.Int).Mul(want, want)
		after.Add(after, big.NewInt(1))
		d.Coeff.Add(&d.Coeff, apd.NewBigInt(7))
		d.Coeff.Lsh(&d.Coeff, 3)
		if b.MathBigInt().Cmp(after) != 0 {
			return bad("argument changed after the decimal's coefficient was modified in place")
		}
	case "setint":
		d := c.Dirty.Apd()
		var r *apd.Decimal
		wantExp := int32(0)
		switch c.Which {
		case 0:
			r = d.SetInt64(c.V)
		case 1:
			r = apd.New(c.V, c.E)
			wantExp = c.E
		case 2:
			r = apd.NewWithBigInt(apd.NewBigInt(c.V), c.E)
			wantExp = c.E
		default:
			r = d.SetFinite(c.V, c.E)
			wantExp = c.E
		}
		if c.V == math.MinInt64 || c.V == math.MaxInt64 {
			st.NonTrivial("int64-boundary")
		} else if c.V < 0 {
			st.NonTrivial("negative")
		}
		want := new(big.Int).Abs(big.NewInt(c.V))
		if r.Form != apd.Finite || r.Negative != (c.V < 0) || r.Exponent != wantExp || r.Coeff.MathBigInt().Cmp(want) != 0 || r.Coeff.Sign() < 0 {
			return fmt.Errorf("constructor %d of (%d, %d) into %v gave %s", c.Which, c.V, c.E, c.Dirty, core.Show(r))
		}
	case "float64":
		x := c.X.Apd()
		var got float64
		var err error
		core.Guard(st, func() { got, err = x.Float64() })
		adj := int64(c.X.Exp) + int64(len(c.X.Coeff)) - 1
		zero := c.X.IsZero()
		if len(c.X.Coeff) > 17 {
			st.NonTrivial("more-than-17-digits")
		} else if !zero {
			st.NonTrivial("short-coefficient")
		}
		switch {
		case zero:
			if got != 0 || math.Signbit(got) != c.X.Neg || err != nil {
				return fmt.Errorf("Float64(%v) = %v, %v; want a zero of the same sign", c.X, got, err)
			}
		case adj > 310:
			st.Class("float-overflow")
			if !math.IsInf(got, sign(c.X.Neg)) || err == nil {
				return fmt.Errorf("Float64(%v) = %v, %v; want an infinity with an error", c.X, got, err)
			}
		case adj < -345:
			st.Class("float-underflow")
			if got != 0 || math.Signbit(got) != c.X.Neg {
				return fmt.Errorf("Float64(%v) = %v, %v; want a zero of the same sign", c.X, got, err)
			}
		default:
			r := new(big.Rat).SetInt(c.X.Big())
			if c.X.Exp >= 0 {
				r.Mul(r, new(big.Rat).SetInt(ref.Pow10(int64(c.X.Exp))))
			} else {
				r.Quo(r, new(big.Rat).SetInt(ref.Pow10(-int64(c.X.Exp))))
			}
			if c.X.Neg {
				r.Neg(r)
			}
			want, _ := r.Float64()
			if math.IsInf(want, 0) {
				st.Class("float-overflow")
				if !math.IsInf(got, sign(c.X.Neg)) || err == nil {
					return fmt.Errorf("Float64(%v) = %v, %v; want an infinity with an error", c.X, got, err)
				}
				return nil
			}
			if math.Float64bits(got) != math.Float64bits(want) {
				return fmt.Errorf("Float64(%v) = %v (%#x), nearest float64 is %v (%#x)", c.X, got, math.Float64bits(got), want, math.Float64bits(want))
			}
		}
	case "modf":
		d := c.X.Apd()
		integ, frac := c.Dirty.Apd(), c.Dirty.Apd()
		switch c.Which {
		case 1:
			frac = nil
		case 2:
			integ = nil
		}
		core.Guard(st, func() { d.Modf(integ, frac) })
		if !core.SameFields(d, c.X.Apd()) {
			return fmt.Errorf("Modf(%v) modified its receiver to %s", c.X, core.Show(d))
		}
		v := c.X.Big()
		wantI, wantF := new(big.Int), new(big.Int)
		if c.X.Exp >= 0 {
			wantI.Mul(v, ref.Pow10(int64(c.X.Exp)))
		} else {
			wantI.QuoRem(v, ref.Pow10(-int64(c.X.Exp)), wantF)
		}
		if wantF.Sign() != 0 {
			st.NonTrivial("non-zero-fraction")
		}
		if wantI.Sign() == 0 {
			st.Class("zero-integer-part")
		}
		if integ != nil {
			if integ.Form != apd.Finite || integ.Exponent < 0 || integ.Negative != c.X.Neg ||
				ref.CmpMag(integ.Coeff.MathBigInt(), int64(integ.Exponent), wantI, 0) != 0 {
				return fmt.Errorf("Modf(%v) into %v: integ = %s, want %s (integer, exponent >= 0, sign of d)", c.X, c.Dirty, core.Show(integ), wantI)
			}
		}
		if frac != nil {
			fe := int64(c.X.Exp)
			if fe > 0 {
				fe = 0
			}
			if frac.Form != apd.Finite || frac.Exponent > 0 || frac.Negative != c.X.Neg ||
				ref.CmpMag(frac.Coeff.MathBigInt(), int64(frac.Exponent), wantF, fe) != 0 {
				return fmt.Errorf("Modf(%v) into %v: frac = %s, want %sE%d (|frac| < 1, sign of d)", c.X, c.Dirty, core.Show(frac), wantF, fe)
			}
		}
		// the parts own their storage: in-place arithmetic on them must not reach d
		core.Guard(st, func() {
			for _, part := range []*apd.Decimal{integ, frac} {
				if part != nil {
					part.Coeff.Add(&part.Coeff, apd.NewBigInt(1))
					part.Coeff.Neg(&part.Coeff)
					part.Coeff.Lsh(&part.Coeff, 1)
				}
			}
		})
		if !core.SameFields(d, c.X.Apd()) {
			return fmt.Errorf("Modf(%v): in-place arithmetic on the returned parts changed the receiver to %s", c.X, core.Show(d))
		}
	}
	return nil
}

func sign(neg bool) int {
	if neg {
		return -1
	}
	return 1
}

func TestC17(t *testing.T)       { core.Run(t, "C17", genCase, checkDiff) }
func TestC17Replay(t *testing.T) { core.Replay(t, "C17", checkDiff) }

// checkDiff: Float64 is also compared with float(Decimal) of Python (libmpdec to a string,
// then the C library's correctly rounded strtod): an independent nearest-float64 conversion.
func checkDiff(c Case, st *core.Stats) error {
	if err := check(c, st); err != nil {
		return err
	}
	if c.Kind != "float64" || c.X.Form != 0 {
		return nil
	}
	a, err := pyref.Ask("tofloat", core.Ctx{P: 9, Emax: 99, Emin: -99, Rounding: "half_even"}, c.X, core.Dec{Coeff: "0"}, 0)
	if err != nil {
		core.InfraExit(err.Error())
	}
	bits, perr := strconv.ParseUint(a.S, 16, 64)
	if perr != nil {
		core.InfraExit("pyref: bad float answer " + a.S)
	}
	st.Class("python-differential")
	got, _ := c.X.Apd().Float64()
	if math.Float64bits(got) != bits {
		return fmt.Errorf("Float64(%v) = %v (%#x), Python's float(Decimal) gives %v (%#x)", c.X, got, math.Float64bits(got), math.Float64frombits(bits), bits)
	}
	return nil
}
