// C10: integer division and remainder satisfy the division identity. Oracle: exact
// big-integer truncating division at the common exponent; plus the identity x = q*y + r
// evaluated exactly on apd's own two results (tying QuoInteger and Rem together).
package c10

import (
	"fmt"
	"math/big"
	"testing"

	"github.com/cockroachdb/apd/v3"
	"verif/harness/arith"
	"verif/harness/core"
	"verif/harness/ref"
)

var gen = arith.Gen([]string{"quointeger"}, 400, false)

func check(c arith.Case, st *core.Stats) error {
	if c.Y.IsZero() {
		c.Y.Coeff = "3"
	}
	cq, cr := c, c
	cq.Op, cr.Op = "quointeger", "rem"
	eq, er := arith.Reference(cq), arith.Reference(cr)
	var oq, or arith.Out
	core.Guard(st, func() { oq = arith.Exec(cq); or = arith.Exec(cr) })
	limit := eq.Limit || er.Limit || arith.NearLimit(c, nil)
	if limit {
		st.Class("limit-class")
	}
	q, r, _ := ref.DivInt(c.X, c.Y)
	if q.Sign() != 0 && r.Sign() != 0 {
		st.NonTrivial("q!=0,r!=0")
	}
	if q.Sign() == 0 {
		st.Class("|x|<|y|")
	}
	if r.Sign() == 0 {
		st.Class("exact-multiple")
	}
	nq := ref.NDigits(q)
	switch {
	case nq == int64(c.Ctx.P):
		st.Class("q-has-exactly-P-digits")
	case nq == int64(c.Ctx.P)+1:
		st.Class("q-has-P+1-digits")
	}
	if d := int64(c.X.Exp) - int64(c.Y.Exp); d > 2*int64(c.Ctx.P) || d < -2*int64(c.Ctx.P) {
		st.Class("large-exponent-gap")
		if (d > 128 || d < -128) && (nq == int64(c.Ctx.P) || nq == int64(c.Ctx.P)+1) {
			st.Class("gap-over-128-with-quotient-at-the-digit-limit")
		}
	}
	for _, pair := range []struct {
		name string
		e    arith.Expect
		o    arith.Out
	}{{"QuoInteger", eq, oq}, {"Rem", er, or}} {
		e, o := pair.e, pair.o
		if o.Err != nil {
			if limit {
				continue
			}
			return fmt.Errorf("%s %v: unexpected error %v (flags %s)", pair.name, c, o.Err, core.FlagStr(o.Res))
		}
		if e.NaN {
			st.Class("division-impossible")
			if o.D.Form != apd.NaN || !o.Res.DivisionImpossible() {
				return fmt.Errorf("%s %v: got %s flags=%s, expected NaN with DivisionImpossible (integer quotient %s needs more than %d digits)", pair.name, c, core.Show(o.D), core.FlagStr(o.Res), q, c.Ctx.P)
			}
			continue
		}
		if o.Res.DivisionImpossible() || o.D.Form != e.R.Form {
			return fmt.Errorf("%s %v: got %s flags=%s, expected %v (quotient %s fits %d digits)", pair.name, c, core.Show(o.D), core.FlagStr(o.Res), e.R, q, c.Ctx.P)
		}
		if !ref.SameValue(o.D, e.R) {
			return fmt.Errorf("%s %v: got %s flags=%s, expected %v (q=%s r=%s)", pair.name, c, core.Show(o.D), core.FlagStr(o.Res), e.R, q, r)
		}
		if pair.name == "QuoInteger" && e.R.Form == apd.Infinite {
			// the quotient fits the precision but lies above the exponent range
			// (MaxExponent < Precision-1): it overflows like any other result
			st.Class("quotient-above-the-exponent-range")
			if !o.Res.Overflow() || !o.Res.Inexact() {
				return fmt.Errorf("QuoInteger %v: quotient %s is above the exponent range, expected Overflow|Inexact, got %s", c, q, core.FlagStr(o.Res))
			}
			continue
		}
		if pair.name == "QuoInteger" {
			if o.D.Exponent != 0 {
				return fmt.Errorf("QuoInteger %v: result %s must have exponent 0", c, core.Show(o.D))
			}
			if o.Res != 0 {
				return fmt.Errorf("QuoInteger %v: unexpected flags %s on a representable quotient", c, core.FlagStr(o.Res))
			}
		} else {
			if e.R.Inexact {
				st.Class("remainder-rounded")
			}
			if o.Res.Inexact() != (e.R.Inexact) {
				return fmt.Errorf("Rem %v: flags %s, remainder %s needs rounding = %v", c, core.FlagStr(o.Res), r, e.R.Inexact)
			}
		}
	}
	// identity on apd's own outputs, exact arithmetic
	if oq.Err == nil && or.Err == nil && oq.D.Form == apd.Finite && or.D.Form == apd.Finite && !or.Res.Inexact() {
		st.Class("identity-checked")
		lhs := signedAt(c.X.Apd())
		qy := mulExact(oq.D, c.Y.Apd())
		rr := signedAt(or.D)
		sum := addExact(qy, rr)
		if !equalExact(lhs, sum) {
			return fmt.Errorf("identity x = q*y + r fails for %v: q=%s r=%s", c, core.Show(oq.D), core.Show(or.D))
		}
		// |r| < |y| and r carries the sign of x (or is zero)
		if ref.CmpMag(or.D.Coeff.MathBigInt(), int64(or.D.Exponent), c.Y.Big(), int64(c.Y.Exp)) >= 0 {
			return fmt.Errorf("|r| >= |y| for %v: r=%s", c, core.Show(or.D))
		}
		if or.D.Negative != c.X.Neg {
			return fmt.Errorf("remainder sign differs from dividend sign for %v: r=%s", c, core.Show(or.D))
		}
	}
	return nil
}

type ev struct {
	v *big.Int
	e int64
}

func signedAt(d *apd.Decimal) ev {
	v := d.Coeff.MathBigInt()
	if d.Negative {
		v.Neg(v)
	}
	return ev{v, int64(d.Exponent)}
}
func mulExact(a, b *apd.Decimal) ev {
	x, y := signedAt(a), signedAt(b)
	return ev{new(big.Int).Mul(x.v, y.v), x.e + y.e}
}
func align(a, b ev) (*big.Int, *big.Int) {
	e := a.e
	if b.e < e {
		e = b.e
	}
	return new(big.Int).Mul(a.v, ref.Pow10(a.e-e)), new(big.Int).Mul(b.v, ref.Pow10(b.e-e))
}
func addExact(a, b ev) ev {
	x, y := align(a, b)
	e := a.e
	if b.e < e {
		e = b.e
	}
	return ev{x.Add(x, y), e}
}
func equalExact(a, b ev) bool {
	x, y := align(a, b)
	return x.Cmp(y) == 0
}

func TestC10(t *testing.T)       { core.Run(t, "C10", gen, checkDiff) }
func TestC10Replay(t *testing.T) { core.Replay(t, "C10", checkDiff) }

// checkDiff: after the model, QuoInteger and Rem are compared with divide_int and remainder of
// Python's decimal module (libmpdec).
func checkDiff(c arith.Case, st *core.Stats) error {
	if err := check(c, st); err != nil {
		return err
	}
	if c.Y.IsZero() {
		c.Y.Coeff = "3"
	}
	for _, op := range []string{"quointeger", "rem"} {
		cc := c
		cc.Op = op
		if err := arith.DiffExec(cc, arith.DiffOpts{Value: true, Flags: true}, 2, st); err != nil {
			return err
		}
	}
	return nil
}
