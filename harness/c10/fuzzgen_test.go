package c10

import (
	"testing"

	"verif/harness/core"
)

// FuzzGen: coverage-guided search over the draws of the same generator (thorough tier).
func FuzzGen(f *testing.F) { core.FuzzGen(f, "C10", gen, check) }
