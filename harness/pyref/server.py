#!/usr/bin/env python3
"""Differential reference: Python's decimal module (libmpdec), an independent implementation
of the General Decimal Arithmetic specification. Reads one JSON request per line on stdin,
writes one JSON answer per line on stdout. Deterministic; no state between requests.

request : {"op", "p", "emax", "emin", "r", "x", "y", "q"}   (x, y: numeric strings)
answer  : {"s": to-sci-string of the result, "f": flag mask}  or {"skip": reason}
flag mask bits: 1 Inexact, 2 Rounded, 4 Subnormal, 8 Underflow, 16 Overflow, 32 DivisionByZero,
                64 InvalidOperation (also DivisionImpossible/DivisionUndefined), 128 Clamped
"""
import sys, json, decimal
from decimal import Decimal, Context

MODES = {"down": decimal.ROUND_DOWN, "half_up": decimal.ROUND_HALF_UP, "half_even": decimal.ROUND_HALF_EVEN,
         "ceiling": decimal.ROUND_CEILING, "floor": decimal.ROUND_FLOOR, "half_down": decimal.ROUND_HALF_DOWN,
         "up": decimal.ROUND_UP, "05up": decimal.ROUND_05UP}
BITS = [(decimal.Inexact, 1), (decimal.Rounded, 2), (decimal.Subnormal, 4), (decimal.Underflow, 8), (decimal.Overflow, 16),
        (decimal.DivisionByZero, 32), (decimal.InvalidOperation, 64), (decimal.Clamped, 128)]
# exact parsing of operands: a context that never rounds
EXACT = Context(prec=decimal.MAX_PREC, Emax=decimal.MAX_EMAX, Emin=decimal.MIN_EMIN, traps=[])


def run(req):
    p, emax, emin = req["p"], req["emax"], req["emin"]
    if p < 1 or emax < 0 or emin > 0 or req["r"] not in MODES:
        return {"skip": "context outside Python's domain"}
    c = Context(prec=p, Emax=emax, Emin=emin, rounding=MODES[req["r"]], capitals=1, clamp=0, traps=[])
    if req["op"] == "parse":
        # exact conversion of a numeric string (no context); invalid syntax is an answer
        try:
            return {"s": str(Decimal(req["x"])), "f": 0}
        except decimal.InvalidOperation:
            return {"s": "<invalid>", "f": 0}
    x = EXACT.create_decimal(req["x"])
    y = EXACT.create_decimal(req.get("y") or "0")
    op = req["op"]
    if op == "tosci":
        return {"s": str(x), "f": 0}
    if op == "tofloat":
        import struct
        return {"s": struct.pack(">d", float(x)).hex(), "f": 0}
    if op == "add":
        r = c.add(x, y)
    elif op == "sub":
        r = c.subtract(x, y)
    elif op == "mul":
        r = c.multiply(x, y)
    elif op == "quo":
        r = c.divide(x, y)
    elif op == "quointeger":
        r = c.divide_int(x, y)
    elif op == "rem":
        r = c.remainder(x, y)
    elif op == "sqrt":
        r = c.sqrt(x)
    elif op == "abs":
        r = c.abs(x)
    elif op == "neg":
        r = c.minus(x)
    elif op == "round":
        # context rounding of a value: create_decimal keeps the sign of zero (plus is 0+x);
        # NaN operands are handled as by an operation (plus)
        r = c.plus(x) if x.is_nan() else c.create_decimal(x)
    elif op == "quantize":
        r = c.quantize(x, Decimal((0, (1,), req["q"])))
    elif op == "rtie":
        r = c.to_integral_exact(x)
    elif op == "rtiv":
        r = c.to_integral_value(x)
    elif op == "reduce":
        r = c.normalize(x)
    elif op == "cmp":
        r = c.compare(x, y)
    elif op == "cmptotal":
        r = x.compare_total(y)
    elif op == "exp":
        r = c.exp(x)
    elif op == "ln":
        r = c.ln(x)
    elif op == "log10":
        r = c.log10(x)
    elif op == "pow":
        r = c.power(x, y)
    else:
        return {"skip": "op"}
    f = 0
    for sig, bit in BITS:
        if c.flags[sig]:
            f |= bit
    return {"s": str(r), "f": f}


def main():
    out = sys.stdout
    for line in sys.stdin:
        line = line.strip()
        if not line:
            continue
        try:
            ans = run(json.loads(line))
        except Exception as e:  # report, never die: the Go side turns this into an infrastructure error
            ans = {"error": "%s: %s" % (type(e).__name__, e)}
        out.write(json.dumps(ans) + "\n")
        out.flush()


if __name__ == "__main__":
    main()
