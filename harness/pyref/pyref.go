// Package pyref is a differential reference: Python's decimal module (libmpdec), an
// independent implementation of the General Decimal Arithmetic specification, run as a
// line-oriented subprocess (server.py). It is a second opinion next to the hand-written
// exact-rational models of package ref: those define what is mathematically right, this one
// guards against a misreading of the specification shared by a model and the library.
package pyref

import (
	"bufio"
	"encoding/json"
	"fmt"
	"math/big"
	"os"
	"os/exec"
	"path/filepath"
	"strings"
	"sync"

	"verif/harness/core"
)

// Flag bits of an Answer (server.py).
const (
	Inexact = 1 << iota
	Rounded
	Subnormal
	Underflow
	Overflow
	DivisionByZero
	Invalid
	Clamped
)

// Answer is what Python computed.
type Answer struct {
	S     string `json:"s"`
	F     int    `json:"f"`
	Skip  string `json:"skip"`
	Error string `json:"error"`
}

type request struct {
	Op   string `json:"op"`
	P    uint32 `json:"p"`
	Emax int32  `json:"emax"`
	Emin int32  `json:"emin"`
	R    string `json:"r"`
	X    string `json:"x"`
	Y    string `json:"y"`
	Q    int32  `json:"q"`
}

var (
	mu      sync.Mutex
	started bool
	failed  error
	in      *bufio.Writer
	out     *bufio.Reader
	cmd     *exec.Cmd
	Calls   int64
)

// Spell writes a decimal as a numeric string (payloads are not modelled).
func Spell(d core.Dec) string {
	s := ""
	if d.Neg {
		s = "-"
	}
	switch d.Form {
	case 1:
		return s + "Infinity"
	case 2:
		return s + "sNaN"
	case 3:
		return s + "NaN"
	}
	return fmt.Sprintf("%s%sE%d", s, d.Coeff, d.Exp)
}

func start() error {
	script := filepath.Join(core.VerifDir(), "harness", "pyref", "server.py")
	if _, err := os.Stat(script); err != nil {
		return err
	}
	cmd = exec.Command("python3", script)
	cmd.Stderr = os.Stderr
	w, err := cmd.StdinPipe()
	if err != nil {
		return err
	}
	r, err := cmd.StdoutPipe()
	if err != nil {
		return err
	}
	if err := cmd.Start(); err != nil {
		return err
	}
	in, out = bufio.NewWriter(w), bufio.NewReaderSize(r, 1<<16)
	return nil
}

// AskRaw is Ask with the first operand given as text (op "parse").
func AskRaw(op string, text string) (Answer, error) {
	return ask(request{Op: op, P: 9, Emax: 99, Emin: -99, R: "half_even", X: text, Y: "0"})
}

// Ask evaluates one operation in Python. An error means the infrastructure failed (no
// python3, broken pipe, exception inside the server): callers must not treat it as a verdict.
func Ask(op string, ctx core.Ctx, x, y core.Dec, q int32) (Answer, error) {
	return ask(request{Op: op, P: ctx.P, Emax: ctx.Emax, Emin: ctx.Emin, R: ctx.Rounding, X: Spell(x), Y: Spell(y), Q: q})
}

func ask(rq request) (Answer, error) {
	mu.Lock()
	defer mu.Unlock()
	var a Answer
	if failed != nil {
		return a, failed
	}
	if !started {
		started = true
		if err := start(); err != nil {
			failed = fmt.Errorf("pyref: cannot start python3 server.py: %v", err)
			return a, failed
		}
	}
	b, _ := json.Marshal(rq)
	in.Write(b)
	in.WriteByte('\n')
	if err := in.Flush(); err != nil {
		failed = fmt.Errorf("pyref: write: %v", err)
		return a, failed
	}
	line, err := out.ReadBytes('\n')
	if err != nil {
		failed = fmt.Errorf("pyref: read: %v", err)
		return a, failed
	}
	if err := json.Unmarshal(line, &a); err != nil {
		failed = fmt.Errorf("pyref: bad answer %q: %v", line, err)
		return a, failed
	}
	if a.Error != "" {
		return a, fmt.Errorf("pyref: server error for %s: %s", b, a.Error)
	}
	Calls++
	return a, nil
}

// Value is a parsed to-scientific-string.
type Value struct {
	Form  int8 // 0 finite, 1 infinite, 3 NaN, 2 sNaN
	Neg   bool
	Coeff *big.Int
	Exp   int64
}

// Parse reads Python's str(Decimal): [-]digits[.digits][E[+-]digits], [-]Infinity, [-]NaN[digits], [-]sNaN[digits].
func Parse(s string) (Value, error) {
	var v Value
	t := s
	if strings.HasPrefix(t, "-") {
		v.Neg = true
		t = t[1:]
	}
	switch {
	case t == "Infinity":
		v.Form = 1
		return v, nil
	case strings.HasPrefix(t, "NaN"):
		v.Form = 3
		return v, nil
	case strings.HasPrefix(t, "sNaN"):
		v.Form = 2
		return v, nil
	}
	mant, exp := t, int64(0)
	if i := strings.IndexAny(t, "Ee"); i >= 0 {
		mant = t[:i]
		if _, err := fmt.Sscanf(t[i+1:], "%d", &exp); err != nil {
			return v, fmt.Errorf("pyref: cannot parse %q", s)
		}
	}
	if i := strings.IndexByte(mant, '.'); i >= 0 {
		exp -= int64(len(mant) - i - 1)
		mant = mant[:i] + mant[i+1:]
	}
	c, ok := new(big.Int).SetString(mant, 10)
	if !ok || mant == "" {
		return v, fmt.Errorf("pyref: cannot parse %q", s)
	}
	v.Coeff, v.Exp = c, exp
	return v, nil
}
