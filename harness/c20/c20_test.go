// C20: rounding modes bracket each other and rounding is monotone. Oracle: relations
// between executions of the implementation only (no reference value): mode bracketing,
// adjacency of floor/ceiling, monotonicity of Round, commutation, Sub = Add of the
// negation, sign mirroring, power-of-ten scaling.
package c20

import (
	"fmt"
	"math/big"
	"testing"

	"github.com/cockroachdb/apd/v3"
	"pgregory.net/rapid"
	"verif/harness/arith"
	"verif/harness/core"
	"verif/harness/gen"
	"verif/harness/ref"
)

type Case struct {
	arith.Case
	K int32 `json:"k"` // power of ten used by the scaling relation
}

var ops = []string{"add", "sub", "mul", "quo", "round", "quantize", "rtie"}
var base = arith.Gen(ops, 400, false)

func genCase(t *rapid.T) Case {
	c := Case{Case: base(t)}
	c.Ctx.Rounding = ""
	if c.Op == "round" {
		// second operand for monotonicity: a neighbour of x or an independent value
		switch k := gen.Pick(t, 3, "near"); {
		case k == 2:
			// the same value (or a neighbour) in another representation: zeros moved between
			// coefficient and exponent, so the two roundings discard different digit counts
			j := rapid.IntRange(1, 200).Draw(t, "pad")
			v := c.X.Big()
			v.Mul(v, ref.Pow10(int64(j)))
			v.Add(v, big.NewInt(int64(rapid.IntRange(-1, 1).Draw(t, "dy"))))
			if v.Sign() < 0 {
				v.SetInt64(0)
			}
			c.Y = core.Dec{Coeff: v.String(), Exp: c.X.Exp - int32(j), Neg: c.X.Neg}
			if gen.Pick(t, 2, "swapxy") == 0 {
				c.X, c.Y = c.Y, c.X
			}
		case k == 0:
			v := c.X.Big()
			v.Add(v, big.NewInt(int64(rapid.IntRange(-3, 3).Draw(t, "dy"))))
			if v.Sign() < 0 {
				v.SetInt64(0)
			}
			c.Y = core.Dec{Coeff: v.String(), Exp: c.X.Exp, Neg: c.X.Neg}
		default:
			c.Y = gen.Finite(t, c.Ctx, "y")
		}
	}
	c.K = int32(rapid.IntRange(-6, 6).Draw(t, "k"))
	return c
}

type run struct {
	d   *apd.Decimal
	res apd.Condition
	err error
}

func exec(c arith.Case, mode string) run {
	c.Ctx.Rounding = mode
	o := arith.Exec(c)
	return run{o.D, o.Res, o.Err}
}

// cmp compares two non-NaN results numerically (-0 == +0, infinities bound everything).
func cmp(a, b *apd.Decimal) int {
	sa, sb := sign(a), sign(b)
	if sa != sb {
		if sa < sb {
			return -1
		}
		return 1
	}
	if sa == 0 {
		return 0
	}
	m := cmpAbs(a, b)
	if sa < 0 {
		return -m
	}
	return m
}

func sign(a *apd.Decimal) int {
	if a.Form == apd.Finite && a.Coeff.Sign() == 0 {
		return 0
	}
	if a.Negative {
		return -1
	}
	return 1
}

func cmpAbs(a, b *apd.Decimal) int {
	ai, bi := a.Form == apd.Infinite, b.Form == apd.Infinite
	switch {
	case ai && bi:
		return 0
	case ai:
		return 1
	case bi:
		return -1
	}
	return ref.CmpMag(a.Coeff.MathBigInt(), int64(a.Exponent), b.Coeff.MathBigInt(), int64(b.Exponent))
}

func neg(d core.Dec) core.Dec { d.Neg = !d.Neg; return d }

func mirror(mode string) string {
	switch mode {
	case "floor":
		return "ceiling"
	case "ceiling":
		return "floor"
	}
	return mode
}

func same(a, b run) bool {
	if (a.err == nil) != (b.err == nil) {
		return false
	}
	if a.err != nil {
		return true
	}
	return a.res == b.res && core.SameFields(a.d, b.d)
}

func show(r run) string {
	if r.err != nil {
		return "error(" + r.err.Error() + ")"
	}
	return core.Show(r.d) + " " + core.FlagStr(r.res)
}

func check(c Case, st *core.Stats) error {
	st.Class("op:" + c.Op)
	// near the +/-100000 package limits (operands or exact result) errors are documented
	limit := arith.NearLimit(c.Case, nil) || arith.Reference(c.Case).Limit
	rs := map[string]run{}
	var failed error
	core.Guard(st, func() {
		for _, m := range gen.EightModes {
			rs[m] = exec(c.Case, m)
		}
	})
	anyErr, anyNaN, anyInexact, allInexact, anyOverflow := false, false, false, true, false
	for _, m := range gen.EightModes {
		r := rs[m]
		if r.err != nil {
			anyErr = true
			continue
		}
		if r.d.Form == apd.NaN || r.d.Form == apd.NaNSignaling {
			anyNaN = true
		}
		if r.res.Inexact() {
			anyInexact = true
		} else {
			allInexact = false
		}
		if r.res.Overflow() {
			anyOverflow = true
		}
	}
	if anyErr {
		if limit {
			st.Class("limit-class-error")
			return nil
		}
		return fmt.Errorf("%v: unexpected error under some mode: %v", c.Case, rs)
	}
	if anyInexact {
		st.NonTrivial("inexact:" + c.Op)
	}
	if !anyNaN {
		fl, ce, dn, up := rs["floor"], rs["ceiling"], rs["down"], rs["up"]
		for _, m := range gen.EightModes {
			r := rs[m]
			if cmp(fl.d, r.d) > 0 || cmp(r.d, ce.d) > 0 {
				return fmt.Errorf("%v: floor <= %s <= ceiling violated: floor=%s %s=%s ceiling=%s", c.Case, m, show(fl), m, show(r), show(ce))
			}
			if cmpAbs(dn.d, r.d) > 0 || cmpAbs(r.d, up.d) > 0 {
				return fmt.Errorf("%v: |down| <= |%s| <= |up| violated: down=%s %s=%s up=%s", c.Case, m, show(dn), m, show(r), show(up))
			}
		}
		for _, m := range []string{"half_up", "half_even", "half_down", "05up"} {
			r := rs[m]
			if cmp(r.d, dn.d) != 0 && cmp(r.d, up.d) != 0 {
				return fmt.Errorf("%v: %s=%s is neither down=%s nor up=%s", c.Case, m, show(r), show(dn), show(up))
			}
		}
		if !anyInexact {
			for _, m := range gen.EightModes {
				if cmp(rs[m].d, dn.d) != 0 {
					return fmt.Errorf("%v: no mode raised Inexact but %s=%s differs from down=%s", c.Case, m, show(rs[m]), show(dn))
				}
			}
		}
		if allInexact && !anyOverflow && cmp(dn.d, up.d) == 0 {
			return fmt.Errorf("%v: Inexact raised without overflow but down=%s equals up=%s", c.Case, show(dn), show(up))
		}
		if anyInexact && !allInexact && !anyOverflow {
			return fmt.Errorf("%v: Inexact raised under some modes only: %v", c.Case, flagsOf(rs))
		}
		if err := adjacent(c, fl, ce); err != nil {
			return err
		}
	} else {
		st.Class("nan-under-some-mode")
	}
	// relations per mode
	core.Guard(st, func() {
		for _, m := range gen.EightModes {
			if failed = relations(c, m, rs[m], st); failed != nil {
				return
			}
		}
	})
	return failed
}

func flagsOf(rs map[string]run) string {
	s := ""
	for _, m := range gen.EightModes {
		s += fmt.Sprintf("%s:%s=%s ", m, core.Show(rs[m].d), core.FlagStr(rs[m].res))
	}
	return s
}

// adjacent: floor and ceiling results are equal or adjacent representable values.
func adjacent(c Case, fl, ce run) error {
	if cmp(fl.d, ce.d) == 0 {
		return nil
	}
	f, g := fl.d, ce.d
	if f.Form == apd.Infinite || g.Form == apd.Infinite {
		// the finite one must be the largest finite value of the context (sign as needed)
		fin := f
		if f.Form == apd.Infinite {
			fin = g
		}
		if fin.Form != apd.Finite {
			return fmt.Errorf("%v: floor=%s and ceiling=%s are opposite infinities", c.Case, show(fl), show(ce))
		}
		if c.Op == "quantize" || c.Op == "rtie" {
			return nil
		}
		maxc := new(big.Int).Sub(ref.Pow10(int64(c.Ctx.P)), big.NewInt(1))
		if ref.CmpMag(fin.Coeff.MathBigInt(), int64(fin.Exponent), maxc, int64(c.Ctx.Emax)-int64(c.Ctx.P)+1) != 0 {
			return fmt.Errorf("%v: floor=%s ceiling=%s: infinity is only adjacent to the largest finite value", c.Case, show(fl), show(ce))
		}
		return nil
	}
	ef, eg := int64(f.Exponent), int64(g.Exponent)
	fz, gz := f.Coeff.Sign() == 0, g.Coeff.Sign() == 0
	q := ef
	if eg < q {
		q = eg
	}
	if fz {
		q = eg
	} else if gz {
		q = ef
	}
	e := ef
	if eg < e {
		e = eg
	}
	if q < e {
		e = q
	}
	sv := func(d *apd.Decimal) *big.Int {
		v := d.Coeff.MathBigInt()
		v.Mul(v, ref.Pow10(int64(d.Exponent)-e))
		if d.Negative {
			v.Neg(v)
		}
		return v
	}
	diff := new(big.Int).Sub(sv(g), sv(f))
	if diff.Cmp(ref.Pow10(q-e)) != 0 {
		return fmt.Errorf("%v: floor=%s and ceiling=%s are not adjacent representable values", c.Case, show(fl), show(ce))
	}
	// "Adjacent representable values" of a Precision-digit format are one unit of the
	// Precision-th digit apart: for results in the normal range the spacing must be
	// 10^(adjusted exponent - Precision + 1) of the value nearer to zero (results that
	// differ are inexact, so they carry all Precision digits). Quantize and
	// RoundToIntegralExact prescribe their own exponent instead.
	if c.Op != "quantize" && c.Op != "rtie" && fl.res&apd.Subnormal == 0 && ce.res&apd.Subnormal == 0 && !fz && !gz {
		small := f
		if cmpAbs(g, f) < 0 {
			small = g
		}
		adj := int64(small.Exponent) + ref.NDigits(small.Coeff.MathBigInt()) - 1
		if want := adj - int64(c.Ctx.P) + 1; q != want {
			return fmt.Errorf("%v: floor=%s and ceiling=%s are 10^%d apart, adjacent %d-digit values there are 10^%d apart", c.Case, show(fl), show(ce), q, c.Ctx.P, want)
		}
	}
	return nil
}

func relations(c Case, m string, r0 run, st *core.Stats) error {
	ac := c.Case
	ac.Ctx.Rounding = m
	switch c.Op {
	case "add", "mul":
		sw := ac
		sw.X, sw.Y = ac.Y, ac.X
		if r := exec(sw, m); !same(r0, r) {
			return fmt.Errorf("%v [%s]: does not commute: %s vs swapped %s", c.Case, m, show(r0), show(r))
		}
	case "sub":
		ad := ac
		ad.Op = "add"
		ad.Y = neg(ac.Y)
		if r := exec(ad, m); !same(r0, r) {
			return fmt.Errorf("%v [%s]: Sub(x,y)=%s differs from Add(x,-y)=%s", c.Case, m, show(r0), show(r))
		}
	case "round":
		// monotone: x <= y implies Round(x) <= Round(y)
		ry := ac
		ry.X = ac.Y
		r := exec(ry, m)
		if r0.err == nil && r.err == nil && r0.d.Form != apd.NaN && r.d.Form != apd.NaN {
			x, y := ac.X.Apd(), ac.Y.Apd()
			if o := cmp(x, y); o == 0 {
				st.Class("equal-value-pair")
				if cmp(r0.d, r.d) != 0 {
					return fmt.Errorf("%v [%s]: equal values round differently: x=%v -> %s, y=%v -> %s", c.Case, m, ac.X, show(r0), ac.Y, show(r))
				}
			} else {
				st.Class("monotone-pair")
				if o*cmp(r0.d, r.d) < 0 {
					return fmt.Errorf("%v [%s]: Round not monotone: x=%v -> %s, y=%v -> %s", c.Case, m, ac.X, show(r0), ac.Y, show(r))
				}
			}
		}
	}
	if r0.err != nil || r0.d.Form == apd.NaN {
		return nil
	}
	// sign mirror: negating the operands (one operand for mul/quo) negates the result
	// under the mirrored mode. Exact zero sums follow their own sign rule, so zero
	// results are compared numerically only.
	mi := ac
	mi.X = neg(ac.X)
	if c.Op == "add" || c.Op == "sub" {
		mi.Y = neg(ac.Y)
	}
	rm := exec(mi, mirror(m))
	if rm.err == nil {
		okm := rm.d.Form == r0.d.Form && rm.res == r0.res && cmpAbs(rm.d, r0.d) == 0 && rm.d.Exponent == r0.d.Exponent
		if okm && sign(r0.d) != 0 && rm.d.Negative == r0.d.Negative {
			okm = false
		}
		if !okm {
			return fmt.Errorf("%v [%s]: negated operands under %s give %s, expected the mirror image of %s", c.Case, m, mirror(m), show(rm), show(r0))
		}
	}
	// scaling by 10^k inside the normal range
	if c.K != 0 && c.Op != "quantize" && c.Op != "rtie" {
		sc := ac
		shift := int64(c.K)
		sc.X.Exp = ac.X.Exp + c.K
		switch c.Op {
		case "add", "sub":
			sc.Y.Exp = ac.Y.Exp + c.K
		case "quo":
			if c.K%2 == 0 { // scale the divisor instead
				sc.X.Exp = ac.X.Exp
				sc.Y.Exp = ac.Y.Exp + c.K
				shift = -shift
			}
		}
		okRange := func(d core.Dec) bool { e := int64(d.Exp); return e > -gen.Limit+10 && e+int64(len(d.Coeff)) < gen.Limit-10 }
		if okRange(sc.X) && okRange(sc.Y) {
			rsd := exec(sc, m)
			normal := func(r run) bool {
				return r.err == nil && r.d.Form == apd.Finite && r.d.Coeff.Sign() != 0 && r.res&(apd.Subnormal|apd.Overflow|apd.Clamped|apd.Underflow) == 0 &&
					int64(r.d.Exponent)+ref.NDigits(r.d.Coeff.MathBigInt())-1 >= int64(c.Ctx.Emin)
			}
			if normal(r0) && normal(rsd) {
				st.Class("scaling-applicable")
				if rsd.d.Negative != r0.d.Negative || rsd.d.Coeff.MathBigInt().Cmp(r0.d.Coeff.MathBigInt()) != 0 ||
					int64(rsd.d.Exponent) != int64(r0.d.Exponent)+shift || rsd.res != r0.res {
					return fmt.Errorf("%v [%s]: scaling by 10^%d gives %s, expected %s shifted by %d", c.Case, m, c.K, show(rsd), show(r0), shift)
				}
			}
		}
	}
	return nil
}

func TestC20(t *testing.T)       { core.Run(t, "C20", genCase, check) }
func TestC20Replay(t *testing.T) { core.Replay(t, "C20", check) }
