// C09: Quantize, RoundToIntegralValue/Exact, Ceil and Floor. Oracle: exact integer
// division with remainder of the coefficient by the power of ten, rounded by the
// independent rule table ref.AddOne; validity conditions re-stated from the statement.
package c09

import (
	"fmt"
	"testing"

	"github.com/cockroachdb/apd/v3"
	"verif/harness/arith"
	"verif/harness/core"
	"verif/harness/ref"
)

var ops = []string{"quantize", "quantize", "quantize", "rtie", "rtiv", "ceil", "floor"}

var gen = arith.Gen(ops, 400, false)

func check(c arith.Case, st *core.Stats) error {
	e := arith.Reference(c)
	var o arith.Out
	core.Guard(st, func() { o = arith.Exec(c) })
	st.Class("op:" + c.Op)
	// the same call with the result written over the operand must agree (Ceil and Floor read
	// the operand through Modf after they have started writing)
	var oa arith.Out
	core.Guard(st, func() { x := c.X.Apd(); oa = arith.Call(c.Op, c.Ctx.Apd(), x, x, nil, c.QExp, "") })
	if (o.Err == nil) != (oa.Err == nil) || (o.Err == nil && (!core.SameFields(o.D, oa.D) || o.Res != oa.Res)) {
		return fmt.Errorf("%v: %s flags=%s err=%v with a fresh destination, but %s flags=%s err=%v when the destination is the operand",
			c, core.Show(o.D), core.FlagStr(o.Res), o.Err, core.Show(oa.D), core.FlagStr(oa.Res), oa.Err)
	}
	if !e.Defined {
		st.Class("outside-quantifier")
		return nil
	}
	if c.Op == "quantize" && o.Res&(apd.Underflow|apd.Overflow|apd.SystemUnderflow|apd.SystemOverflow) != 0 {
		// also at the package limits: what Quantize cannot do it rejects as InvalidOperation
		return fmt.Errorf("%v: raised %s (err=%v); Quantize never raises Underflow or Overflow (result %s)", c, core.FlagStr(o.Res), o.Err, core.Show(o.D))
	}
	if o.Err != nil {
		if e.Limit {
			st.Class("limit-class-error")
			return nil
		}
		return fmt.Errorf("%v: unexpected error %v (flags %s)", c, o.Err, core.FlagStr(o.Res))
	}
	classify(c, e, st)
	if e.Limit && arith.QuantizeMayReject(c) && c.Op == "quantize" && o.D.Form == apd.NaN && o.Res.InvalidOperation() {
		st.Class("limit-class-invalid")
		return nil // at the +/-100000 package limits a clean rejection is acceptable
	}
	if o.Res&(apd.Underflow|apd.Overflow) != 0 && (c.Op == "quantize" || c.Op == "rtie" || c.Op == "rtiv") {
		return fmt.Errorf("%v: raised %s; this operation never raises Underflow or Overflow (result %s)", c, core.FlagStr(o.Res), core.Show(o.D))
	}
	if e.NaN {
		st.Class("expect-invalid")
		if o.D.Form != apd.NaN || !o.Res.InvalidOperation() {
			return fmt.Errorf("%v: got %s flags=%s, expected NaN with InvalidOperation (coefficient needs more than P digits or exponent out of range)", c, core.Show(o.D), core.FlagStr(o.Res))
		}
		return nil
	}
	if !ref.SameValue(o.D, e.R) {
		return fmt.Errorf("%v: got %s flags=%s, expected %v", c, core.Show(o.D), core.FlagStr(o.Res), e.R)
	}
	if e.ExpSet && int64(o.D.Exponent) != e.ExpWant {
		return fmt.Errorf("%v: got %s, expected exponent exactly %d", c, core.Show(o.D), e.ExpWant)
	}
	switch c.Op {
	case "quantize", "rtie":
		if o.Res.Inexact() != e.R.Inexact {
			return fmt.Errorf("%v: flags %s but non-zero digits lost = %v (result %s)", c, core.FlagStr(o.Res), e.R.Inexact, core.Show(o.D))
		}
		if o.Res.Inexact() && !o.Res.Rounded() {
			return fmt.Errorf("%v: Inexact without Rounded (flags %s)", c, core.FlagStr(o.Res))
		}
		if o.Res.Rounded() && !e.R.Dropped {
			return fmt.Errorf("%v: Rounded although no digit was dropped (flags %s)", c, core.FlagStr(o.Res))
		}
		if o.Res.InvalidOperation() {
			return fmt.Errorf("%v: InvalidOperation on a representable result %v", c, e.R)
		}
	case "rtiv":
		if o.Res&(apd.Inexact|apd.Rounded) != 0 {
			return fmt.Errorf("%v: RoundToIntegralValue reported %s", c, core.FlagStr(o.Res))
		}
	}
	return nil
}

func classify(c arith.Case, e arith.Expect, st *core.Stats) {
	mode := ref.Mode(c.Ctx.Rounding)
	target := int64(0)
	if c.Op == "quantize" {
		target = int64(c.QExp)
	}
	drop := target - int64(c.X.Exp) // digits dropped
	nd := int64(len(c.X.Coeff))
	if drop <= 0 {
		return
	}
	sign := "+"
	if c.X.Neg {
		sign = "-"
	}
	switch {
	case c.X.IsZero():
		st.NonTrivial("zero-operand")
	case drop > nd:
		st.NonTrivial("more-than-one-digit-below-quantum")
		st.Class("far-below:" + sign + mode)
	case drop == nd:
		st.NonTrivial("no-kept-digit")
		if c.Ctx.Emin == 0 {
			st.Class("no-kept-digit-emin0")
		}
	default:
		st.NonTrivial("digits-dropped")
	}
	if e.R.Inexact && !e.NaN && e.R.Coeff != nil {
		// tie / rollover detection from the exact remainder
		_, _, half := ref.DivRoundH(c.X.Big(), one, int64(c.X.Exp), target, "down", false)
		if half == 0 {
			st.Class("tie")
		}
		trunc, _, _ := ref.DivRoundH(c.X.Big(), one, int64(c.X.Exp), target, "down", false)
		if ref.NDigits(e.R.Coeff) > ref.NDigits(trunc) && trunc.Sign() != 0 {
			st.Class("rollover")
		}
	}
}

var one = ref.Pow10(0)

func TestC09(t *testing.T)       { core.Run(t, "C09", gen, checkDiff) }
func TestC09Replay(t *testing.T) { core.Replay(t, "C09", checkDiffAll) }

// the model check followed by the differential comparison with Python's decimal module
// (one case in 2 during the search, every case on replay)
var checkDiff = arith.WithDifferential(check, arith.DiffOpts{Value: true, Flags: true}, 2)
var checkDiffAll = arith.WithDifferential(check, arith.DiffOpts{Value: true, Flags: true}, 1)
