package c04

import (
	"encoding/binary"
	"testing"

	"verif/harness/core"
)

// FuzzParse: raw bytes into every parsing entry point.
func FuzzParse(f *testing.F) {
	for _, s := range hostile {
		f.Add(s)
	}
	f.Fuzz(func(t *testing.T, s string) {
		if len(s) > 80 {
			return
		}
		st := core.NewStats("C04")
		for _, e := range []string{"NewFromString", "Decimal.SetString", "Decimal.UnmarshalText", "Decimal.Scan", "NullDecimal.Scan", "Context.SetString", "Context.NewFromString", "BigInt.SetString", "BigInt.UnmarshalJSON"} {
			c := Case{Entry: e, S: s, N: 0, Ctx: core.Ctx{P: 7, Emax: 96, Emin: -95, Rounding: "half_even"}, X: core.Dec{Coeff: "1"}, Y: core.Dec{Coeff: "1"}, Fmt: "%v"}
			if err := check(c, st); err != nil {
				t.Fatal(err)
			}
		}
	})
}

// FuzzCall: bytes decoded into an entry point and its arguments.
func FuzzCall(f *testing.F) {
	f.Add([]byte{0, 1, 2, 3, 4, 5, 6, 7, 8, 9, 10, 11, 12, 13, 14, 15, 16, 17, 18, 19, 20, 21, 22, 23, 24, 25, 26, 27, 28, 29, 30, 31})
	f.Add([]byte("\x10\x05\x00\x00\x00\x02\x00\x00\x00\x80\xff\xff\xffINEXACTtraps-ln-1.05............"))
	f.Fuzz(func(t *testing.T, b []byte) {
		if len(b) < 32 {
			return
		}
		u16 := func(i int) int { return int(binary.LittleEndian.Uint16(b[i:])) }
		i32 := func(i int) int32 { return int32(binary.LittleEndian.Uint32(b[i:])) }
		modes := []string{"down", "half_up", "half_even", "ceiling", "floor", "half_down", "up", "05up", ""}
		dec := func(o int) core.Dec {
			d := core.Dec{Form: int8(b[o] % 4), Neg: b[o]&4 != 0}
			n := 1 + int(b[o+1]%30)
			cs := make([]byte, n)
			for i := range cs {
				cs[i] = '0' + b[(o+2+i)%len(b)]%10
			}
			s := string(cs)
			for len(s) > 1 && s[0] == '0' {
				s = s[1:]
			}
			d.Coeff = s
			e := int64(i32(o+2)) % 100001
			if e+int64(len(s)) > 100000 {
				e = 100000 - int64(len(s))
			}
			d.Exp = int32(e)
			if b[o]&8 != 0 {
				d.Exp = int32(int8(b[o+2]))
			}
			return d
		}
		c := Case{Entry: entryNames[u16(0)%len(entryNames)]}
		p := uint32(b[2] % 20)
		c.Ctx = core.Ctx{P: p, Emax: int32(p) + int32(u16(3)%1000), Emin: -int32(u16(5) % 1000), Rounding: modes[int(b[7])%len(modes)], Traps: uint32(u16(8)) & 0xfff}
		c.X, c.Y = dec(10), dec(18)
		c.N = int64(i32(24))
		c.E = i32(26) % 100006
		c.S = string(b[28:])
		c.B = "-" + c.X.Coeff + c.Y.Coeff + c.X.Coeff
		c.Fmt = "%" + []string{"", "+", "-", "0", " ", "-0", "+0"}[int(b[9])%7] + []string{"", "5", "20", "40"}[int(b[9]>>4)%4] + []string{"v", "e", "G", "f", "s", "d"}[int(b[1])%6]
		if c.X.Exp > 2000 || c.X.Exp < -2000 {
			c.Fmt = "%v"
		}
		c.Bits = binary.LittleEndian.Uint64(b[10:])
		st := core.NewStats("C04")
		if err := check(c, st); err != nil {
			t.Fatal(err)
		}
	})
}
