// C04: operations are total - no panic and no hang on any well-formed input; text input
// never produces an ill-formed value. Oracle: recover(), a CPU-time watchdog, and the
// structural validity of every returned or written Decimal.
package c04

import (
	"database/sql/driver"
	"fmt"
	"math"
	"reflect"
	"sort"
	"strings"
	"testing"

	"github.com/cockroachdb/apd/v3"
	"pgregory.net/rapid"
	"verif/harness/arith"
	"verif/harness/core"
	"verif/harness/gen"
)

type Case struct {
	Entry string   `json:"entry"`
	Ctx   core.Ctx `json:"ctx"`
	X     core.Dec `json:"x"`
	Y     core.Dec `json:"y"`
	B     string   `json:"b,omitempty"` // a big integer (decimal text, any sign and size)
	N     int64    `json:"n"`
	E     int32    `json:"e"`
	S     string   `json:"s,omitempty"` // arbitrary bytes for the parsers
	Fmt   string   `json:"fmt,omitempty"`
	Bits  uint64   `json:"bits"`
}

// sprintfNoPanic formats v and turns a panic that package fmt recovered from a Format or String
// method ("%!v(PANIC=Format method: ...)") back into a panic, so that it is reported.
func sprintfNoPanic(format string, v interface{}) string {
	out := fmt.Sprintf(format, v)
	if i := strings.Index(out, "(PANIC="); i >= 0 {
		end := i + 300
		if end > len(out) {
			end = len(out)
		}
		panic("package fmt recovered a panic while formatting with " + format + ": " + out[i:end])
	}
	return out
}

type result struct {
	decs     []*apd.Decimal // every Decimal returned or written
	parsed   *apd.Decimal   // a successfully parsed Decimal (extra exponent checks)
	rejected bool           // the call was turned away by argument validation (trivial case)
	note     string
}

var ctxOps = []string{"add", "sub", "mul", "quo", "quointeger", "rem", "pow", "cmp", "abs", "neg", "round", "quantize", "rtie", "rtiv", "ceil", "floor", "reduce",
	"sqrt", "cbrt", "exp", "ln", "log10", "setstring"}

var ctxMethodName = map[string]string{"add": "Add", "sub": "Sub", "mul": "Mul", "quo": "Quo", "quointeger": "QuoInteger", "rem": "Rem", "pow": "Pow", "cmp": "Cmp",
	"abs": "Abs", "neg": "Neg", "round": "Round", "quantize": "Quantize", "rtie": "RoundToIntegralExact", "rtiv": "RoundToIntegralValue", "ceil": "Ceil", "floor": "Floor",
	"reduce": "Reduce", "sqrt": "Sqrt", "cbrt": "Cbrt", "exp": "Exp", "ln": "Ln", "log10": "Log10", "setstring": "SetString"}

type entryFn func(c Case) result

var entries = map[string]entryFn{}

func bigOf(c Case) *apd.BigInt {
	var b apd.BigInt
	if _, ok := b.SetString(c.B, 10); !ok {
		b.SetInt64(c.N)
	}
	return &b
}

func init() {
	for _, op := range ctxOps {
		op := op
		entries["Context."+ctxMethodName[op]] = func(c Case) result {
			o := arith.Call(op, c.Ctx.Apd(), new(apd.Decimal), c.X.Apd(), c.Y.Apd(), c.E, c.S)
			r := result{decs: []*apd.Decimal{o.D}, rejected: o.Err != nil && o.Res == 0}
			if op == "setstring" && o.Err == nil {
				r.parsed = o.D
			}
			return r
		}
		if w := ctxMethodName[op]; op != "cmp" && op != "cbrt" && op != "setstring" {
			entries["ErrDecimal."+w] = func(c Case) result {
				ed := apd.MakeErrDecimal(c.Ctx.Apd())
				d := new(apd.Decimal)
				m := reflect.ValueOf(&ed).MethodByName(w)
				args := []reflect.Value{reflect.ValueOf(d), reflect.ValueOf(c.X.Apd())}
				if arith.Binary(op) {
					args = append(args, reflect.ValueOf(c.Y.Apd()))
				}
				if op == "quantize" {
					args = append(args, reflect.ValueOf(c.E))
				}
				m.Call(args)
				_ = ed.Err()
				return result{decs: []*apd.Decimal{d}}
			}
		}
	}
	entries["ErrDecimal.Int64"] = func(c Case) result {
		ed := apd.MakeErrDecimal(c.Ctx.Apd())
		ed.Int64(c.X.Apd())
		_ = ed.Err()
		var zero apd.ErrDecimal // zero value: nil Ctx
		zero.Int64(c.X.Apd())
		_ = zero.Err()
		return result{}
	}
	entries["ErrDecimal.Err"] = func(c Case) result {
		ed := apd.MakeErrDecimal(c.Ctx.Apd())
		ed.Flags = apd.Condition(c.Ctx.Traps) & core.AllFlags
		_ = ed.Err()
		return result{}
	}
	entries["Context.NewFromString"] = func(c Case) result {
		d, _, err := c.Ctx.Apd().NewFromString(c.S)
		if err == nil {
			return result{decs: []*apd.Decimal{d}, parsed: d}
		}
		return result{}
	}
	entries["Context.WithPrecision"] = func(c Case) result {
		n := c.Ctx.Apd().WithPrecision(uint32(c.N))
		o := arith.Call("add", n, new(apd.Decimal), c.X.Apd(), c.Y.Apd(), 0, "")
		return result{decs: []*apd.Decimal{o.D}}
	}
	entries["NewFromString"] = func(c Case) result {
		d, _, err := apd.NewFromString(c.S)
		if err == nil {
			return result{decs: []*apd.Decimal{d}, parsed: d}
		}
		return result{}
	}
	entries["New"] = func(c Case) result { return result{decs: []*apd.Decimal{apd.New(c.N, c.E)}} }
	entries["NewWithBigInt"] = func(c Case) result { return result{decs: []*apd.Decimal{apd.NewWithBigInt(bigOf(c), c.E)}} }
	entries["NewBigInt"] = func(c Case) result { apd.NewBigInt(c.N); return result{} }
	entries["MakeErrDecimal"] = func(c Case) result { ed := apd.MakeErrDecimal(c.Ctx.Apd()); _ = ed.Err(); return result{} }
	entries["NumDigits"] = func(c Case) result { apd.NumDigits(bigOf(c)); return result{} }
	// Decimal methods
	dm := func(name string, f func(c Case, x *apd.Decimal) result) { entries["Decimal."+name] = func(c Case) result { return f(c, c.X.Apd()) } }
	dm("Abs", func(c Case, x *apd.Decimal) result { return result{decs: []*apd.Decimal{c.Y.Apd().Abs(x)}} })
	dm("Neg", func(c Case, x *apd.Decimal) result { return result{decs: []*apd.Decimal{c.Y.Apd().Neg(x)}} })
	dm("Set", func(c Case, x *apd.Decimal) result { return result{decs: []*apd.Decimal{c.Y.Apd().Set(x)}} })
	dm("Reduce", func(c Case, x *apd.Decimal) result { d, _ := c.Y.Apd().Reduce(x); return result{decs: []*apd.Decimal{d}} })
	dm("Append", func(c Case, x *apd.Decimal) result { x.Append(nil, byte(c.N)); x.Append(make([]byte, 3, 64), 'G'); return result{} })
	dm("Cmp", func(c Case, x *apd.Decimal) result { x.Cmp(c.Y.Apd()); return result{} })
	dm("CmpTotal", func(c Case, x *apd.Decimal) result { x.CmpTotal(c.Y.Apd()); return result{} })
	dm("Compose", func(c Case, x *apd.Decimal) result {
		err := x.Compose(byte(c.N), c.E&1 == 1, []byte(c.S), c.E)
		if err == nil {
			return result{decs: []*apd.Decimal{x}}
		}
		return result{}
	})
	dm("Decompose", func(c Case, x *apd.Decimal) result { x.Decompose(make([]byte, 0, int(c.N&63))); x.Decompose(nil); return result{} })
	dm("Float64", func(c Case, x *apd.Decimal) result { x.Float64(); return result{} })
	dm("Format", func(c Case, x *apd.Decimal) result { sprintfNoPanic(c.Fmt, x); return result{} })
	dm("Int64", func(c Case, x *apd.Decimal) result { x.Int64(); return result{} })
	dm("IsZero", func(c Case, x *apd.Decimal) result { x.IsZero(); return result{} })
	dm("MarshalText", func(c Case, x *apd.Decimal) result {
		x.MarshalText()
		var n *apd.Decimal
		n.MarshalText()
		return result{}
	})
	dm("Modf", func(c Case, x *apd.Decimal) result {
		i, f := new(apd.Decimal), new(apd.Decimal)
		x.Modf(i, f)
		x.Modf(nil, nil)
		x.Modf(i, nil)
		x.Modf(nil, f)
		if c.X.Form == 0 {
			return result{decs: []*apd.Decimal{i, f}}
		}
		return result{}
	})
	dm("NumDigits", func(c Case, x *apd.Decimal) result { x.NumDigits(); return result{} })
	dm("Scan", func(c Case, x *apd.Decimal) result {
		var srcs = []interface{}{c.S, []byte(c.S), c.N, math.Float64frombits(c.Bits), nil, 3, true, uint64(7)}
		d := new(apd.Decimal)
		err := d.Scan(srcs[int(uint64(c.N)%uint64(len(srcs)))])
		if err == nil {
			return result{decs: []*apd.Decimal{d}, parsed: d}
		}
		return result{}
	})
	dm("SetFinite", func(c Case, x *apd.Decimal) result { return result{decs: []*apd.Decimal{x.SetFinite(c.N, c.E)}} })
	dm("SetFloat64", func(c Case, x *apd.Decimal) result {
		d, err := x.SetFloat64(math.Float64frombits(c.Bits))
		if err == nil {
			return result{decs: []*apd.Decimal{d}, parsed: d}
		}
		return result{}
	})
	dm("SetInt64", func(c Case, x *apd.Decimal) result { return result{decs: []*apd.Decimal{x.SetInt64(c.N)}} })
	dm("SetString", func(c Case, x *apd.Decimal) result {
		d, _, err := x.SetString(c.S)
		if err == nil {
			return result{decs: []*apd.Decimal{d}, parsed: d}
		}
		return result{}
	})
	dm("Sign", func(c Case, x *apd.Decimal) result { x.Sign(); return result{} })
	dm("Size", func(c Case, x *apd.Decimal) result { x.Size(); return result{} })
	dm("String", func(c Case, x *apd.Decimal) result { _ = x.String(); return result{} })
	dm("Text", func(c Case, x *apd.Decimal) result { _ = x.Text(byte(c.N)); _ = x.Text('f'); return result{} })
	dm("UnmarshalText", func(c Case, x *apd.Decimal) result {
		d := new(apd.Decimal)
		if err := d.UnmarshalText([]byte(c.S)); err == nil {
			return result{decs: []*apd.Decimal{d}, parsed: d}
		}
		return result{}
	})
	dm("Value", func(c Case, x *apd.Decimal) result { (*x).Value(); return result{} })
	entries["NullDecimal.Scan"] = func(c Case) result {
		var n apd.NullDecimal
		var src interface{} = c.S
		if c.N%3 == 0 {
			src = nil
		}
		if err := n.Scan(src); err == nil && n.Valid {
			return result{decs: []*apd.Decimal{&n.Decimal}, parsed: &n.Decimal}
		}
		return result{}
	}
	entries["NullDecimal.Value"] = func(c Case) result {
		n := apd.NullDecimal{Decimal: *c.X.Apd(), Valid: c.N%2 == 0}
		var v driver.Value
		v, _ = n.Value()
		_ = v
		return result{}
	}
	entries["Form.String"] = func(c Case) result { _ = apd.Form(c.X.Form).String(); _ = apd.Form(int8(c.N)).String(); return result{} }
	entries["Rounder.Round"] = func(c Case) result {
		d := new(apd.Decimal)
		apd.Rounder(c.Ctx.Rounding).Round(c.Ctx.Apd(), d, c.X.Apd(), c.N%2 == 0)
		return result{decs: []*apd.Decimal{d}}
	}
	entries["Rounder.ShouldAddOne"] = func(c Case) result {
		b := bigOf(c)
		b.Abs(b)
		apd.Rounder(c.Ctx.Rounding).ShouldAddOne(b, c.X.Neg, int(c.N%3)-1)
		return result{}
	}
	for _, name := range []string{"Any", "Clamped", "DivisionByZero", "DivisionImpossible", "DivisionUndefined", "Inexact", "InvalidOperation", "Overflow", "Rounded",
		"Subnormal", "SystemOverflow", "SystemUnderflow", "Underflow", "String"} {
		name := name
		entries["Condition."+name] = func(c Case) result {
			r := apd.Condition(uint32(c.N)) & core.AllFlags
			reflect.ValueOf(r).MethodByName(name).Call(nil)
			return result{}
		}
	}
	entries["Condition.GoError"] = func(c Case) result {
		r := apd.Condition(uint32(c.N)) & core.AllFlags
		r.GoError(apd.Condition(c.Ctx.Traps) & core.AllFlags)
		return result{}
	}
	// BigInt: every method is exercised against math/big in C16 ("panics iff math/big
	// panics"); here the entry points that accept arbitrary text or any size are driven.
	entries["BigInt.SetString"] = func(c Case) result { new(apd.BigInt).SetString(c.S, []int{0, 2, 10, 16, 36, 62}[uint64(c.N)%6]); return result{} }
	entries["BigInt.UnmarshalText"] = func(c Case) result { new(apd.BigInt).UnmarshalText([]byte(c.S)); return result{} }
	entries["BigInt.UnmarshalJSON"] = func(c Case) result { new(apd.BigInt).UnmarshalJSON([]byte(c.S)); return result{} }
	entries["BigInt.GobDecode"] = func(c Case) result { new(apd.BigInt).GobDecode([]byte(c.S)); return result{} }
	entries["BigInt.Text"] = func(c Case) result {
		b := bigOf(c)
		_ = b.Text([]int{2, 10, 16, 36, 62}[uint64(c.N)%5])
		_ = b.String()
		sprintfNoPanic(c.Fmt, b)
		var n *apd.BigInt // the nil receiver is documented to print "<nil>" like math/big
		_ = n.String()
		_ = n.Text(10)
		_ = n.Append(nil, 10)
		return result{}
	}
}

var entryNames []string

func init() { // runs after the init above (same file, source order)
	for k := range entries {
		entryNames = append(entryNames, k)
	}
	sort.Strings(entryNames)
}

// missingEntries lists exported methods that no entry drives (found by reflection), so that
// a newly exported method cannot be silently skipped.
func missingEntries() []string {
	var miss []string
	types := map[string]reflect.Type{
		"Context": reflect.TypeOf(&apd.Context{}), "Decimal": reflect.TypeOf(&apd.Decimal{}), "ErrDecimal": reflect.TypeOf(&apd.ErrDecimal{}),
		"Condition": reflect.TypeOf(apd.Condition(0)), "Rounder": reflect.TypeOf(apd.Rounder("")), "NullDecimal": reflect.TypeOf(&apd.NullDecimal{}),
		"Form": reflect.TypeOf(apd.Form(0)),
	}
	for tn, ty := range types {
		for i := 0; i < ty.NumMethod(); i++ {
			name := tn + "." + ty.Method(i).Name
			if _, ok := entries[name]; !ok {
				miss = append(miss, name)
			}
		}
	}
	sort.Strings(miss)
	return miss
}

var hostile = []string{".-5", ".+5", "nansnan", "İnf", "1e2147483648", "-1e-2147483649", "1e100000", "1e-100000", "0.001e-99998", "1.2e-100000", "9.99999E-100000",
	"0001e99999", ".e1", "e", "+", "-", ".", "1e+", "Inf", "-sNaN123", "NaN99999999999999999999999", "1_000", "0x1p3", "１２３", "\x00", " 1", "1e5e5", "--1",
	"999999999999999999999999999999999999999999999999999999999999e99950", "0." + strings.Repeat("0", 300) + "1e-99800"}

func genDec(t *rapid.T, ctx core.Ctx, label string) core.Dec {
	switch gen.Pick(t, 10, label+"k") {
	case 0:
		return gen.Special(t, label)
	case 1:
		return gen.Zero(t, ctx, label)
	case 2: // exponents at the package limits
		d := core.Dec{Coeff: gen.Digits(t, 20, label), Neg: rapid.Bool().Draw(t, label+"n")}
		nd := int64(len(d.Coeff))
		if rapid.Bool().Draw(t, label+"top") {
			d.Exp = int32(gen.Limit - nd + 1 - int64(rapid.IntRange(0, 3).Draw(t, label+"o")))
		} else {
			d.Exp = int32(-gen.Limit + rapid.IntRange(0, 3).Draw(t, label+"o"))
		}
		return d
	case 3: // below the context's Etiny / above its Emax
		d := gen.Finite(t, ctx, label)
		if rapid.Bool().Draw(t, label+"low") {
			d.Exp = ctx.Emin - int32(ctx.P) - int32(rapid.IntRange(0, 40).Draw(t, label+"b"))
		} else {
			d.Exp = ctx.Emax + int32(rapid.IntRange(0, 40).Draw(t, label+"b"))
		}
		// stay well-formed: exponent and adjusted exponent within the package limits
		if nd := int32(len(d.Coeff)); d.Exp > gen.Limit-nd+1 {
			d.Exp = gen.Limit - nd + 1
		}
		if d.Exp < -gen.Limit {
			d.Exp = -gen.Limit
		}
		return d
	default:
		return gen.Finite(t, ctx, label)
	}
}

func genCase(t *rapid.T) Case {
	var c Case
	c.Entry = entryNames[gen.Pick(t, len(entryNames), "entry")]
	if gen.Pick(t, 3, "ctxop") == 0 { // weight towards the Context operations
		c.Entry = "Context." + ctxMethodName[ctxOps[gen.Pick(t, len(ctxOps), "cop")]]
	}
	costly := strings.HasSuffix(c.Entry, ".Cbrt") || strings.HasSuffix(c.Entry, ".Exp") || strings.HasSuffix(c.Entry, ".Ln") || strings.HasSuffix(c.Entry, ".Log10") || strings.HasSuffix(c.Entry, ".Pow")
	maxP := 400
	if costly {
		maxP = 16
	}
	c.Ctx = gen.Context(t, maxP)
	if gen.Pick(t, 12, "p0") == 0 {
		c.Ctx.P = 0
	}
	switch gen.Pick(t, 4, "trapk") {
	case 0:
		c.Ctx.Traps = rapid.Uint32Range(0, 1<<12-1).Draw(t, "traps")
	case 1:
		c.Ctx.Traps = 1 << uint(gen.Pick(t, 12, "tbit"))
	case 2:
		c.Ctx.Traps = uint32(apd.DefaultTraps)
	}
	if gen.Pick(t, 20, "rounder") == 0 {
		c.Ctx.Rounding = rapid.StringN(0, 6, 12).Draw(t, "rstr")
	}
	c.X = genDec(t, c.Ctx, "x")
	c.Y = genDec(t, c.Ctx, "y")
	var qexp *int32
	if ctxEntry := strings.HasPrefix(c.Entry, "Context.") && c.Entry != "Context.NewFromString" && c.Entry != "Context.WithPrecision" && c.Entry != "Context.SetString"; (costly && gen.Pick(t, 4, "shaped") != 0) || (!costly && ctxEntry && gen.Pick(t, 2, "shaped2") == 0) {
		// operands shaped for the operation, as the arithmetic checks draw them
		ac := arith.Case{Op: strings.ToLower(c.Entry[strings.Index(c.Entry, ".")+1:]), Ctx: c.Ctx}
		if ac.Ctx.P == 0 {
			ac.Ctx.P = 5
		}
		opname := map[string]string{"roundtointegralexact": "rtie", "roundtointegralvalue": "rtiv"}
		if n, ok := opname[ac.Op]; ok {
			ac.Op = n
		}
		arith.FillOperands(t, &ac)
		c.X, c.Y = ac.X, ac.Y
		if ac.Op == "quantize" {
			qexp = &ac.QExp
		}
	}
	// big integer of any sign and size
	switch gen.Pick(t, 4, "bk") {
	case 0:
		c.B = "-" + gen.DigitsN(t, rapid.IntRange(39, 400).Draw(t, "bl"), gen.Pick(t, 10, "bs"), "b")
	case 1:
		c.B = gen.Digits(t, 60, "b")
		if rapid.Bool().Draw(t, "bneg") {
			c.B = "-" + c.B
		}
	default:
		c.B = fmt.Sprint(rapid.Int64().Draw(t, "bi"))
	}
	c.N = rapid.Int64().Draw(t, "n")
	if gen.Pick(t, 2, "nsmall") == 0 {
		c.N = int64(rapid.IntRange(-3, 130).Draw(t, "nsm"))
	}
	c.E = int32(rapid.IntRange(-gen.Limit-5, gen.Limit+5).Draw(t, "e"))
	if gen.Pick(t, 2, "esmall") == 0 {
		c.E = int32(rapid.IntRange(-40, 40).Draw(t, "esm"))
	} else if gen.Pick(t, 10, "eext") == 0 { // the ends of the int32 argument range
		c.E = []int32{2147483647, -2147483648, 2147483646, -2147483647, 2147383647, -2147383648, 1073741824}[gen.Pick(t, 7, "eextv")] - int32(rapid.IntRange(0, 3).Draw(t, "eexto"))*int32(1-2*gen.Pick(t, 2, "eexts"))
	}
	if qexp != nil {
		c.E = *qexp
	}
	switch gen.Pick(t, 4, "sk") {
	case 0:
		c.S = hostile[gen.Pick(t, len(hostile), "host")]
	case 1:
		c.S = string(rapid.SliceOfN(rapid.Byte(), 0, 24).Draw(t, "bytes"))
	case 2:
		c.S = gen.Digits(t, 30, "sd")
		if rapid.Bool().Draw(t, "sdot") {
			c.S = "." + c.S
		}
		c.S += "e" + fmt.Sprint(rapid.IntRange(-100010, 100010).Draw(t, "se"))
	default:
		c.S = core.FromApd(c.X.Apd()).String()
		c.S = c.X.Apd().String()
	}
	verb := rapid.SampledFrom([]string{"e", "E", "f", "F", "g", "G", "s", "v", "d", "x", "q", "T", "c", "U", "p", "b", "o", "X"}).Draw(t, "verb")
	flags := ""
	for _, f := range []string{"+", " ", "-", "0", "#"} {
		if gen.Pick(t, 4, "fl"+f) == 0 {
			flags += f
		}
	}
	w := ""
	if rapid.Bool().Draw(t, "w") {
		w = fmt.Sprint(rapid.IntRange(0, 60).Draw(t, "width"))
		if gen.Pick(t, 6, "widew") == 0 { // beyond any fixed-size padding buffer
			w = fmt.Sprint(rapid.IntRange(61, 5000).Draw(t, "widewidth"))
		}
	}
	if gen.Pick(t, 4, "prec") == 0 {
		w += "." + fmt.Sprint(rapid.IntRange(0, 20).Draw(t, "fprec"))
		if gen.Pick(t, 6, "widep") == 0 {
			w = strings.SplitN(w, ".", 2)[0] + "." + fmt.Sprint(rapid.IntRange(21, 3000).Draw(t, "wideprec"))
		}
	}
	c.Fmt = "%" + flags + w + verb
	if (verb == "f" || verb == "F") && (c.X.Exp > 3000 || c.X.Exp < -3000) {
		c.Fmt = "%" + flags + w + "e"
	}
	c.Bits = rapid.Uint64().Draw(t, "bits")
	return c
}

func check(c Case, st *core.Stats) error {
	f, ok := entries[c.Entry]
	if !ok {
		return nil
	}
	var r result
	core.Guard(st, func() { r = f(c) }) // a panic is re-raised and reported by the runner
	st.Class("entry:" + c.Entry)
	parseEntry := strings.Contains(c.Entry, "String") && strings.Contains(c.Entry, "Set") || strings.HasSuffix(c.Entry, "NewFromString") ||
		strings.HasSuffix(c.Entry, "UnmarshalText") || strings.HasSuffix(c.Entry, "UnmarshalJSON") || strings.HasSuffix(c.Entry, ".Scan") ||
		strings.HasSuffix(c.Entry, "GobDecode") || strings.HasSuffix(c.Entry, "Compose")
	if r.rejected || (parseEntry && r.parsed == nil && len(r.decs) == 0) {
		st.Class("rejected-by-argument-validation")
	} else {
		st.NonTrivial(c.Entry)
	}
	if c.Ctx.P == 0 {
		st.Class("precision-0")
	}
	if c.Ctx.Traps != 0 && strings.HasPrefix(c.Entry, "Context.") {
		st.Class("non-empty-trap-set")
	}
	if strings.HasPrefix(c.B, "-") && len(c.B) > 40 && c.Entry == "NumDigits" {
		st.Class("negative-bigint-over-128-bits-into-NumDigits")
	}
	if c.X.Form == 1 && c.X.Coeff != "0" {
		st.Class("junk-carrying-infinity")
	}
	for _, d := range r.decs {
		if d == nil {
			continue
		}
		if err := core.Valid(d); err != nil {
			return fmt.Errorf("%s(%+v) produced an ill-formed Decimal %s: %v", c.Entry, c, core.Show(d), err)
		}
	}
	if d := r.parsed; d != nil {
		st.Class("parse-succeeded")
		if d.Form == apd.Finite {
			adj := int64(d.Exponent) + d.NumDigits() - 1
			if d.Exponent > gen.Limit || d.Exponent < -gen.Limit || adj > gen.Limit || adj < -gen.Limit {
				if !(c.Ctx.P > 0 && strings.HasPrefix(c.Entry, "Context.") && d.Exponent >= c.Ctx.Emin-int32(c.Ctx.P)+1) {
					return fmt.Errorf("%s(%q) succeeded with %s: exponent outside the package limits", c.Entry, c.S, core.Show(d))
				}
			}
		}
	}
	return nil
}

func TestC04(t *testing.T) {
	if miss := missingEntries(); len(miss) > 0 {
		fmt.Printf("INFRA: exported methods without an entry in the C04 table: %v\n", miss)
		t.Fatalf("entry table incomplete: %v", miss)
	}
	core.Run(t, "C04", genCase, check)
}
func TestC04Replay(t *testing.T) { core.Replay(t, "C04", check) }
