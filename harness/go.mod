module verif/harness

go 1.23

toolchain go1.23.5

require (
	github.com/cockroachdb/apd/v3 v3.0.0
	pgregory.net/rapid v1.3.0
)

replace github.com/cockroachdb/apd/v3 => /repo
