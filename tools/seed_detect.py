#!/usr/bin/env python3
"""Run the registered quick checks against each confirmed seeded mutant.
For every /verif/seeded/<id>/ : apply patch.diff to a scratch worktree of /repo's HEAD, run
./check <property> (the property the mutant breaks, plus any given with --also),
record the outcome in /verif/seeded/<id>/detect.json, and remove the worktree (/repo itself is never touched).
Usage: seed_detect.py [--also C01,C07] [--tier quick] [id-prefix ...]"""
import json, os, subprocess, sys, glob, time
args = sys.argv[1:]
also, tier = [], "quick"
while args and args[0].startswith("--"):
    if args[0] == "--also": also = args[1].split(","); args = args[2:]
    elif args[0] == "--tier": tier = args[1]; args = args[2:]
    else: break
def sh(cmd, cwd=None):
    p = subprocess.run(cmd, shell=True, cwd=cwd, capture_output=True, text=True, env=dict(os.environ, VERIF_NO_EVIDENCE="1"))
    return p.returncode, p.stdout + p.stderr
WT = "/tmp/wtdetect-%d" % os.getpid()
dirs = sorted(d for d in glob.glob("/verif/seeded/*") if os.path.exists(os.path.join(d, "meta.json")))
if args:
    dirs = [d for d in dirs if any(os.path.basename(d).startswith(a) for a in args)]
for d in dirs:
    name = os.path.basename(d)
    meta = json.load(open(os.path.join(d, "meta.json")))
    props = [meta["breaks_property"]] + [p for p in meta.get("also_mentioned", []) + also if p != meta["breaks_property"]]
    props = list(dict.fromkeys(props))
    patch = os.path.join(d, "patch.diff")
    # The patch is applied to a scratch worktree of /repo's HEAD and the check is built against
    # that copy (VERIF_REPO, see ./check): /repo's own working tree is never modified, so a
    # sweep or another check can run at the same time.
    sh("git -C /repo worktree remove --force %s" % WT)
    rc, out = sh("git -C /repo worktree add -q --detach %s HEAD" % WT)
    if rc != 0:
        print("cannot create the scratch worktree:", out); sys.exit(2)
    rc, out = sh("git apply %s" % patch, WT)
    if rc != 0:
        print(name, "PATCH DOES NOT APPLY"); sh("git -C /repo worktree remove --force %s" % WT); continue
    results = {}
    try:
        for p in props:
            if not os.path.exists("/verif/harness/%s/meta.json" % p.lower()):
                results[p] = {"exit": None, "note": "check not built"}
                continue
            t0 = time.time()
            rc, out = sh("VERIF_REPO=%s ./check %s --tier %s" % (WT, p, tier), "/verif")
            viol = [l for l in out.splitlines() if l.startswith("VIOLATION")]
            cause = [l for l in out.splitlines() if l.strip().startswith("cause:")]
            results[p] = {"exit": rc, "detected": rc == 1 and bool(viol), "wall_s": round(time.time() - t0, 1),
                          "first_violation": (viol[0] if viol else None), "cause": (cause[0].strip()[:400] if cause else None)}
            if rc not in (0, 1):
                results[p]["tail"] = out[-600:]
    finally:
        sh("git -C /repo worktree remove --force %s" % WT)
    prev = {}
    dj = os.path.join(d, "detect.json")
    if os.path.exists(dj):
        prev = json.load(open(dj))
    prev.update(results)
    json.dump(prev, open(dj, "w"), indent=1)
    print(name, {p: ("DETECTED" if r.get("detected") else "exit=%s" % r.get("exit")) for p, r in results.items()})
