#!/usr/bin/env python3
"""Run /repo's own test suite (verif tag OFF) and compare with /root/.vp/BASELINE.json:
every test of the baseline's stable-pass list must still pass. Exit 0 iff so."""
import json, os, subprocess, sys
repo = sys.argv[1] if len(sys.argv) > 1 else "/repo"
env = dict(os.environ, GOFLAGS="-mod=mod", GOPROXY="off", GOSUMDB="off", GOTOOLCHAIN="local")
p = subprocess.run(["go", "test", "-json", "-vet=off", "-count=1", "-timeout", "25m", "./..."],
                   cwd=repo, env=env, capture_output=True, text=True)
passed, failed = set(), set()
for line in p.stdout.splitlines():
    try:
        ev = json.loads(line)
    except Exception:
        continue
    if ev.get("Test") and ev.get("Action") in ("pass", "fail"):
        name = ev["Package"] + "::" + ev["Test"]
        (passed if ev["Action"] == "pass" else failed).add(name)
base = json.load(open("/root/.vp/BASELINE.json"))
stable = set(base["stable_pass"])
missing = sorted(stable - passed)
print(f"passed={len(passed)} failed={len(failed)} baseline_stable={len(stable)} missing_from_baseline={len(missing)}")
for m in missing[:20]:
    print("  MISSING:", m)
for f in sorted(failed)[:20]:
    print("  FAILED:", f)
sys.exit(0 if not missing else 1)
