#!/usr/bin/env python3
"""Confirm sub-agent mutants: for each /tmp/seeded/<ID>/mut<k>, in a scratch worktree of
/repo HEAD: the patch applies, the library builds, the existing suite passes with it, the
demonstration fails with it and passes without it. Confirmed mutants are copied to
/verif/seeded/<ID>-mut<k>/ with a meta.json. Usage: seed_confirm.py [ID ...]"""
import json, os, shutil, subprocess, sys, glob
ENV = dict(os.environ, GOFLAGS="-mod=mod", GOPROXY="off", GOSUMDB="off", GOTOOLCHAIN="local")
WT = "/tmp/wt/verify"

def sh(cmd, cwd=None, timeout=900):
    p = subprocess.run(cmd, shell=True, cwd=cwd, env=ENV, capture_output=True, text=True, timeout=timeout)
    return p.returncode, (p.stdout + p.stderr)

SRC, TAG = "/tmp/seeded", ""

def main():
    global SRC, TAG
    args = sys.argv[1:]
    while args and args[0].startswith("--"):
        if args[0] == "--src": SRC = args[1]
        if args[0] == "--tag": TAG = args[1]
        args = args[2:]
    ids = args or sorted(os.path.basename(d) for d in glob.glob(SRC + "/[CF]*") if os.path.isdir(d))
    sh("git -C /repo worktree remove --force %s" % WT)
    rc, out = sh("git -C /repo worktree add -q --detach %s HEAD" % WT)
    if rc != 0:
        print(out); return 2
    try:
        for pid in ids:
            for md in sorted(glob.glob(SRC + "/%s/mut*" % pid)):
                k = os.path.basename(md)
                name = "%s-%s%s" % (pid, TAG, k)
                dst = "/verif/seeded/%s" % name
                if os.path.exists(os.path.join(dst, "meta.json")):
                    print(name, "already confirmed"); continue
                patch, demo = os.path.join(md, "patch.diff"), os.path.join(md, "demo_test.go")
                if not (os.path.exists(patch) and os.path.exists(demo)):
                    print(name, "INCOMPLETE"); continue
                sh("git reset -q --hard && git clean -fdq", WT)
                rc, out = sh("git apply %s" % patch, WT)
                if rc != 0:
                    rc, out = sh("patch -p1 --fuzz=3 --no-backup-if-mismatch -i %s" % patch, WT)
                if rc != 0:
                    print(name, "PATCH DOES NOT APPLY:", out[:300]); continue
                race = "-race " if pid == "C18" or (os.path.exists(os.path.join(md, "notes.md")) and "-race" in open(os.path.join(md, "notes.md")).read()) else ""
                rc, out = sh("go build ./... && go test -vet=off -count=1 ./...", WT)
                suite_ok = rc == 0
                shutil.copy(demo, os.path.join(WT, "zz_seeded_demo_test.go"))
                rc1, out1 = sh("go test %s-vet=off -run TestSeededDemo -count=1 ." % race, WT)
                fails_with = rc1 != 0 and ("FAIL" in out1)
                build_err = "[build failed]" in out1
                os.remove(os.path.join(WT, "zz_seeded_demo_test.go"))
                sh("git reset -q --hard && git clean -fdq", WT)
                shutil.copy(demo, os.path.join(WT, "zz_seeded_demo_test.go"))
                rc2, out2 = sh("go test %s-vet=off -run TestSeededDemo -count=1 ." % race, WT)
                passes_without = rc2 == 0
                os.remove(os.path.join(WT, "zz_seeded_demo_test.go"))
                ok = suite_ok and fails_with and passes_without and not build_err
                print(name, "suite_ok=%s demo_fails_with=%s demo_passes_without=%s => %s" % (suite_ok, fails_with, passes_without, "CONFIRMED" if ok else "REJECTED"))
                if not ok:
                    if not suite_ok: print("   suite:", out[-400:])
                    if not passes_without: print("   clean demo:", out2[-600:])
                    if not fails_with: print("   mutant demo:", out1[-400:])
                    continue
                os.makedirs(dst, exist_ok=True)
                shutil.copy(patch, os.path.join(dst, "patch.diff"))
                shutil.copy(demo, os.path.join(dst, "demo_test.go"))
                if os.path.exists(os.path.join(md, "notes.md")):
                    shutil.copy(os.path.join(md, "notes.md"), os.path.join(dst, "notes.md"))
                head = subprocess.run("git -C /repo rev-parse --short HEAD", shell=True, capture_output=True, text=True).stdout.strip()
                prop = pid
                mentioned = []
                if not pid.startswith("C"):
                    import re
                    notes = open(os.path.join(md, "notes.md")).read() if os.path.exists(os.path.join(md, "notes.md")) else ""
                    mentioned = []
                    for m_ in re.findall(r"\bC(?:0[1-9]|1[0-9]|20)\b", notes):
                        if m_ not in mentioned:
                            mentioned.append(m_)
                    prop = mentioned[0] if mentioned else "C04"
                meta = {"id": name, "breaks_property": prop, "also_mentioned": mentioned[1:4], "source": "independent sub-agent given only the property text and a scratch worktree",
                        "needs_to_manifest": "see notes.md",
                        "confirmed_at_repo_commit": head,
                        "confirmation": {"existing_suite_passes_with_patch": True, "demo_fails_with_patch": True, "demo_passes_without_patch": True,
                                         "commands": ["git apply patch.diff", "go test -vet=off -count=1 ./...", "go test %s-run TestSeededDemo -count=1 ." % race]},
                        "demo_failure_excerpt": out1[-800:]}
                json.dump(meta, open(os.path.join(dst, "meta.json"), "w"), indent=1)
    finally:
        sh("git -C /repo worktree remove --force %s" % WT)
    return 0

sys.exit(main())
