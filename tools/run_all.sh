#!/bin/bash
# usage: run_all.sh [tier] [seed...]   runs every registered check; prints one line each
tier=${1:-quick}; shift
seeds=${@:-1}
cd "$(dirname "$0")/.."
for s in $seeds; do
 for p in $(python3 -c "import json;print(' '.join(c['property_id'] for c in json.load(open('MANIFEST.json'))['checks']))"); do
  out=$(VERIF_SEED=$s ./check $p --tier $tier 2>&1); rc=$?
  echo "seed=$s $p exit=$rc $(echo "$out" | tail -1 | cut -c1-150)"
  if [ $rc -ne 0 ]; then echo "$out" | grep -E "VIOLATION|cause|INFRA" | head -5; fi
 done
done
