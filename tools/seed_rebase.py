#!/usr/bin/env python3
"""Re-confirm seeded mutants on /repo's current HEAD (after fix commits changed the code they
touch): apply with fuzz, regenerate patch.diff, run the suite and the demonstration with and
without the change. usage: seed_rebase.py id..."""
import json, os, shutil, subprocess, sys
WT = "/tmp/wtrebase"
ENV = dict(os.environ, GOFLAGS="-mod=mod", GOPROXY="off", GOSUMDB="off", GOTOOLCHAIN="local")

def sh(cmd, cwd=None, timeout=900):
    p = subprocess.run(cmd, shell=True, cwd=cwd, env=ENV, capture_output=True, text=True, timeout=timeout)
    return p.returncode, p.stdout + p.stderr

def main():
    sh("git -C /repo worktree remove --force %s" % WT)
    rc, out = sh("git -C /repo worktree add -q --detach %s HEAD" % WT)
    if rc:
        print(out); return 2
    head = sh("git -C /repo rev-parse --short HEAD")[1].strip()
    try:
        for name in sys.argv[1:]:
            d = "/verif/seeded/" + name
            patch, demo = d + "/patch.diff", d + "/demo_test.go"
            sh("git reset -q --hard && git clean -fdq", WT)
            rc, out = sh("git apply %s" % patch, WT)
            how = "applies unchanged"
            if rc:
                rc, out = sh("patch -p1 --fuzz=3 --no-backup-if-mismatch -i %s" % patch, WT)
                how = "applied with fuzz"
            if rc:
                print(name, "DOES NOT APPLY:", out.strip()[-300:].replace("\n", " | ")); continue
            sh("find . -name '*.orig' -o -name '*.rej' | xargs rm -f", WT)
            newpatch = sh("git diff", WT)[1]
            race = "-race " if "C18" in name or (os.path.exists(d + "/notes.md") and "-race" in open(d + "/notes.md").read()) else ""
            rc, out = sh("go build ./... && go test -vet=off -count=1 ./...", WT)
            suite_ok = rc == 0
            shutil.copy(demo, WT + "/zz_seeded_demo_test.go")
            rc1, out1 = sh("go test %s-vet=off -run TestSeededDemo -count=1 ." % race, WT)
            fails_with = rc1 != 0 and "FAIL" in out1 and "[build failed]" not in out1
            sh("git reset -q --hard && git clean -fdq", WT)
            shutil.copy(demo, WT + "/zz_seeded_demo_test.go")
            rc2, out2 = sh("go test %s-vet=off -run TestSeededDemo -count=1 ." % race, WT)
            passes_without = rc2 == 0
            ok = suite_ok and fails_with and passes_without
            print(name, how, "suite_ok=%s demo_fails_with=%s demo_passes_without=%s => %s" % (suite_ok, fails_with, passes_without, "CONFIRMED" if ok else "NOT CONFIRMED"))
            if not ok:
                if not suite_ok: print("   suite:", out[-300:])
                if not fails_with: print("   mutant demo:", out1[-300:])
                if not passes_without: print("   clean demo:", out2[-300:])
                continue
            if how != "applies unchanged":
                open(patch, "w").write(newpatch)
                m = json.load(open(d + "/meta.json"))
                m["rebased"] = "patch re-expressed on the tree at %s after later fix commits touched the same lines; suite passes with it, the demonstration fails with it and passes without it (re-confirmed)" % head
                m["confirmed_at_repo_commit"] = head
                json.dump(m, open(d + "/meta.json", "w"), indent=1)
    finally:
        sh("git -C /repo worktree remove --force %s" % WT)
    return 0

sys.exit(main())
