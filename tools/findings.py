#!/usr/bin/env python3
"""Regenerate /verif/known_findings.jsonl from the table below. Commit ids of fixed findings
are looked up in /repo by the subject line of the "fix:" commit, so that history edits do
not leave stale hashes. The file is read (never written) by the checks at run time."""
import json, subprocess, sys

def dec(coeff, exp=0, neg=False, form=0):
    return {"form": form, "neg": neg, "coeff": str(coeff), "exp": exp}

def ctx(p, emax, emin, r="half_even", traps=0):
    return {"p": p, "emax": emax, "emin": emin, "rounding": r, "traps": traps}

Z = dec(0)
NAN, SNAN, INF = dec(0, form=3), dec(0, form=2), dec(0, form=1)

def ar(op, c, x, y=Z, **kw):
    d = {"op": op, "ctx": c, "x": x, "y": y}
    d.update(kw)
    return d

INEXACT = 1 << 4

# (id, subject substring of the fix commit or None for open, what, {property: [witness cases]})
F = [
 ("D1", "NumDigits of a negative integer wider than 128 bits",
  "NumDigits(-2^200) dereferenced nil: the negative branch beyond 128 bits shadowed its variable",
  {"C19": [{"kind": "numdigits", "b": str(-(2**200)), "ctx": ctx(0, 0, 0, ""), "x": Z, "dirty": Z, "alias": False}],
   "C04": [{"entry": "NumDigits", "ctx": ctx(5, 9, -9), "x": dec(1), "y": dec(1), "b": str(-(2**200)), "n": 0, "e": 0, "fmt": "%v", "bits": 0}]}),
 ("D2", "round subnormal results with the sign of the value",
  "negative subnormal results were rounded with the wrong sign under floor/ceiling (setExponent passed the scratch decimal's sign): Quo(9, -90) P=1 Emin=0 ceiling gave -1 instead of -0",
  {"C01": [ar("quo", ctx(1, 1, 0, "ceiling"), dec(9), dec(9, 1, True))],
   "C20": [{"op": "round", "ctx": ctx(3, 10, -10, ""), "x": dec(15, -13, True), "y": dec(15, -13, True), "k": 0}]}),
 ("D3", "keep the remainder of a subnormal quotient",
  "Quo dropped the remainder of a subnormal quotient before the rounding to Etiny: Quo(0.501, 1) P=2 Emin=0 ceiling gave 0.5 with neither Inexact nor Underflow",
  {"C01": [ar("quo", ctx(2, 2, 0, "ceiling"), dec(501, -3), dec(1))],
   "C02": [ar("quo", ctx(2, 2, 0, "ceiling"), dec(501, -3), dec(1))]}),
 ("D4", "renormalize the coefficient when Quo's round-up carries",
  "Quo returned Precision+1 digits after a round-up carry: Quo(9996, 1) P=3 RoundUp gave 1000E+1",
  {"C07": [ar("quo", ctx(3, 100, -100, "up"), dec(9996), dec(1))]}),
 ("D5", "apply the rounding mode when quantize discards every digit",
  "quantize ignored the rounding mode when the operand is more than one digit below the target exponent: Quantize(0.001, 0) under RoundUp gave 0, RoundToIntegralExact(-0.09) under floor gave -0",
  {"C09": [ar("rtie", ctx(1, 1, 0, "floor"), dec(9, -2, True)), ar("quantize", ctx(5, 10, -10, "up"), dec(1, -3), qexp=0)],
   "C20": [{"op": "quantize", "ctx": ctx(5, 10, -10, ""), "x": dec(1, -3), "y": Z, "qexp": 0, "k": 0}]}),
 ("D6", "do not treat quantize's rescaled intermediate as subnormal",
  "Quantize/RoundToIntegral treated a value with no kept digit as subnormal when MinExponent=0: Quantize(0.5, 0) returned NaN/InvalidOperation, RoundToIntegralExact(0.99) raised Underflow",
  {"C02": [ar("quantize", ctx(1, 1, 0, "down"), dec(9), qexp=1), ar("rtie", ctx(1, 1, 0, "down"), dec(99, -2))],
   "C09": [ar("rtiv", ctx(1, 1, 0, "down"), dec(999, -3)), ar("quantize", ctx(3, 3, 0), dec(5, -1), qexp=0)]}),
 ("D7", "Modf sets the Form of its outputs",
  "Modf never set the Form of its outputs: Floor(1.5) into a destination that held NaN stayed NaN",
  {"C06": [{"history": [], "main": ar("floor", ctx(9, 99, -99), dec(15, -1)), "dirty": NAN},
           {"history": [], "main": ar("dec.modf", ctx(9, 99, -99), dec(15, -1)), "dirty": INF}]}),
 ("D8", "Modf with an output that is the receiver itself",
  "Modf wrote an output before it had finished reading the receiver: Ceil(d, d) with d = 0.05 returned 0; Modf(d, &frac) gave frac exponent 0",
  {"C05": [{"op": "ceil", "ctx": ctx(9, 99, -99), "x": dec(5, -2), "y": Z, "pattern": "d=x", "which": 0},
           {"op": "dec.modf", "ctx": ctx(9, 99, -99), "x": dec(9, -1), "y": Z, "pattern": "d=x", "which": 0},
           {"op": "dec.modf", "ctx": ctx(9, 99, -99), "x": dec(15, 1), "y": Z, "pattern": "d=x", "which": 1}]}),
 ("D8b", "Ceil and Floor handle NaN and infinite operands",
  "Ceil/Floor passed NaN and infinite operands to Modf: a signaling NaN went through without InvalidOperation",
  {"C08": [{"op": "ceil", "ctx": ctx(9, 99, -99), "x": dec(0, form=2, neg=True), "y": Z, "cx": "-sNaN", "cy": ""}]}),
 ("D9", "Decimal.Reduce counts the zeros of its operand",
  "Decimal.Reduce of a zero read the zero count from the destination: Reduce(0) into 9.9 reported 1 zero removed",
  {"C19": [{"kind": "decreduce", "ctx": ctx(5, 5, -5, "half_up"), "x": Z, "dirty": dec(99, -1), "alias": False}],
   "C06": [{"history": [], "main": ar("dec.reduce", ctx(5, 5, -5), Z), "dirty": dec(99, -1)}]}),
 ("D10", "Context.Reduce removes the trailing zeros of the rounded value",
  "Context.Reduce stripped zeros only before rounding: Reduce(9.99) at Precision 2 returned coefficient 10",
  {"C19": [{"kind": "ctxreduce", "ctx": ctx(2, 2, 0, "half_up"), "x": dec(999, -2), "dirty": Z, "alias": False}]}),
 ("D11", "Exp reports an error raised while summing its series",
  "Exp returned (0, nil) with the destination untouched when an internal step raised a trapped condition (err != ed.Err())",
  {"C03": [{"kind": "ctx", "main": ar("exp", ctx(1, 1, 0, "down", INEXACT), dec(9, -1)), "trapmode": "mask", "k": 0}]}),
 ("D12", "Ln's power series loop stops when an operation fails",
  "Ln(1.05) with Traps=Inexact never returned: the power-series loop had no error check",
  {"C04": [{"entry": "Context.Ln", "ctx": ctx(9, 99, -99, "half_even", INEXACT), "x": dec(105, -2), "y": dec(1), "b": "1", "n": 0, "e": 0, "fmt": "%v", "bits": 0}],
   "C03": [{"kind": "ctx", "main": ar("ln", ctx(9, 99, -99, "half_even", INEXACT), dec(105, -2)), "trapmode": "mask", "k": 0}]}),
 ("D13", "BigInt fast paths never produce a negative zero",
  "the uint64 fast paths of Mul/Quo/Rem/QuoRem and Neg produced a negative zero (Sign() == -1, Cmp(0) == -1, IsUint64() == false): Mul(0, -5), Rem(-10, 5), Neg(0)",
  {"C16": [{"init": ["0", "-5", "-10", "5"], "steps": [{"op": "Mul", "Z": 0, "X": 0, "Y": 1, "R": 3, "n": 0}, {"op": "Rem", "Z": 1, "X": 2, "Y": 3, "R": 0, "n": 0},
                                                       {"op": "Neg", "Z": 2, "X": 0, "Y": 0, "R": 0, "n": 0}, {"op": "Quo", "Z": 3, "X": 1, "Y": 3, "R": 0, "n": 0}]}]}),
 ("D14", "reject a sign inside the mantissa when parsing",
  "the parser let a sign through into the coefficient: \".-5\" parsed to a Decimal with a negative coefficient, \".+5\" to 0.5",
  {"C14": [{"kind": "parse", "x": Z, "s": ".-5", "src": "mutated", "verb": "", "flags": "", "width": 0}, {"kind": "parse", "x": Z, "s": "+.+5", "src": "mutated", "verb": "", "flags": "", "width": 0}],
   "C04": [{"entry": "NewFromString", "ctx": ctx(5, 9, -9), "x": dec(1), "y": dec(1), "b": "1", "n": 0, "e": 0, "s": ".-5", "fmt": "%v", "bits": 0}]}),
 ("D15", "do not accept \"nansnan\" as a signaling NaN",
  "\"nansnan\" parsed as a signaling NaN (both prefixes consumed)",
  {"C14": [{"kind": "parse", "x": Z, "s": "nansnan", "src": "mutated", "verb": "", "flags": "", "width": 0}]}),
 ("D16", "lower-case only ASCII letters when parsing",
  "strings.ToLower folded U+0130 to 'i': \"İnf\" was accepted as an infinity",
  {"C14": [{"kind": "parse", "x": Z, "s": "İnf", "src": "mutated", "verb": "", "flags": "", "width": 0}]}),
 ("D17", "accept NaN payloads of any length",
  "NaN payloads above 2^64-1 were rejected (validated with ParseUint)",
  {"C14": [{"kind": "parse", "x": Z, "s": "-nan99999999999999999999", "src": "grammar", "verb": "", "flags": "", "width": 0}]}),
 ("D18", "the '-' flag overrides '0' in Format",
  "Format zero-padded although '-' was given: %-010G of 1.23E+56 gave 001.23E+56",
  {"C14": [{"kind": "format", "x": dec(123, 54), "s": "", "src": "", "verb": "G", "flags": "-0", "width": 10}]}),
 ("D19", "Context.Round signals on a signaling NaN",
  "Context.Round passed a signaling NaN through silently",
  {"C08": [{"op": "round", "ctx": ctx(9, 99, -99), "x": SNAN, "y": Z, "cx": "+sNaN", "cy": ""}]}),
 ("D20", "rounding leaves infinities alone",
  "an infinity that still carried the coefficient/exponent of an overflowed value raised Overflow|Inexact again in Abs/Neg/Reduce/Round",
  {"C08": [{"op": "abs", "ctx": ctx(5, 20, -20, "floor"), "x": dec("123456789012345678901234567890123456789012", 99, form=1), "y": Z, "cx": "junk+Inf", "cy": ""}]}),
 ("D21", "Pow with an infinite exponent",
  "Pow treated an infinite exponent as the integer 0: Pow(2, Inf) = 1, Pow(-1, Inf) = 1",
  {"C08": [{"op": "pow", "ctx": ctx(9, 99, -99), "x": dec(2), "y": INF, "cx": "+even", "cy": "+Inf"},
           {"op": "pow", "ctx": ctx(9, 99, -99), "x": dec(25, -3), "y": INF, "cx": "+frac", "cy": "+Inf"}]}),
 ("D22", "Cbrt returns perfect cubes exactly and rounds in the context's mode",
  "Cbrt broke exactness on perfect cubes in directed modes (Cbrt(27) P=3 RoundUp = 3.01), mis-detected exactness by cubing at 2P+2 digits, and was two units off just below a power of ten (Cbrt(99999999999E+7) P=4 05up = 1.001E+6)",
  {"C11": [ar("cbrt", ctx(3, 99, -99, "up"), dec(27)), ar("cbrt", ctx(3, 99, -99, "down"), dec(997002999)), ar("cbrt", ctx(3, 99, -99, "down"), dec(997003000)),
           ar("cbrt", ctx(4, 6, 0, "05up"), dec(99999999999, 7))]}),
 ("D23", "make Sqrt correctly rounded and report Inexact reliably",
  "Sqrt double-rounded near rounding boundaries (Sqrt(0.999999999) P=9 = 1.00000000) and lost Inexact when its guard digits were zero (Sqrt(99999999) P=9)",
  {"C11": [ar("sqrt", ctx(9, 99, -99), dec(999999999, -9)), ar("sqrt", ctx(9, 9, 0, "down"), dec(99999999)), ar("sqrt", ctx(9, 9, 0, "down"), dec(999999999, 1))],
   "C02": [ar("sqrt", ctx(9, 9, 0, "down"), dec(99999999))],
   "C07": [ar("sqrt", ctx(21, 22, -2, "ceiling"), dec("100000000000000000000000000000000000000009", -58))]}),
 ("D24", "Exp no longer rounds its argument to the working precision",
  "Exp rounded its argument to the working precision: Exp(9.123456789012345) at Precision 4 returned 9164 (true 9167.8)",
  {"C12": [ar("exp", ctx(4, 1000, -1000), dec(9123456789012345, -15))]}),
 ("D25", "Exp reduces arguments beyond the reach of its series by multiples of ln(10)",
  "Exp reported Overflow (or Underflow) for every |x| >= 23000 once |x| exceeded 23*Precision, whatever the context's exponent range: Exp(23000.9) with MaxExponent=100000 returned Infinity although e^23000.9 = 1.45E+9989 is representable; Pow inherited it for bases with large exponents (long recorded as an open finding; repaired by an argument reduction with ln 10 once C12's enclosures were there to validate it)",
  {"C12": [ar("exp", ctx(1, 100000, -100000, "down"), dec(230009, -1)), ar("exp", ctx(16, 100000, -100000, "half_even"), dec(2000005, -1, True)),
           ar("pow", ctx(9, 100000, -100000, "half_even"), dec(9, 30000), dec(9, -1))]}),
 ("D26", "round Log10's result to the caller's exponent range",
  "Log10 ignored the caller's exponent range: Log10(1.09) P=1 Emin=0 returned 4E-2 (below Etiny)",
  {"C07": [ar("log10", ctx(1, 1, 0, "down"), dec(109, -2))]}),
 ("D27", "clamp the exponent of a zero Sqrt/Cbrt result",
  "Sqrt/Cbrt of a zero did not clamp the halved exponent to the context: Sqrt(0E+4) MaxExponent=1 returned 0E+2",
  {"C07": [ar("sqrt", ctx(1, 1, 0, "down"), dec(0, 4))]}),
 ("D28", "setExponent rejects an exponent below MinExponent",
  "parsing \"-.99e-99999\" returned both an 'exponent out of range' error and a Decimal with exponent -100001 (setExponent did not check the exponent sum)",
  {"C14": [{"kind": "parse", "x": Z, "s": "-.99e-99999", "src": "grammar", "verb": "", "flags": "", "width": 0}]}),
 ("D29", "updateInner does not store a negative zero",
  "the zero cofactor of GCD(x, y, a, 1) for negative a was stored as a negative zero (math/big leaves its sign field set): Sign() == -1",
  {"C16": [{"init": ["-4611686018427387907", "8", "4294967294", "-5692122"], "steps": [{"op": "GCDxy", "Z": 0, "X": 0, "Y": 2, "R": 1, "n": 0}]},
           {"init": ["-680564733841876926926749214863536422912", "8", "4294967294", "-680564733841876926926749214863536422912"], "steps": [{"op": "GCDxy", "Z": 1, "X": 0, "Y": 2, "R": 3, "n": 0}]}]}),
 ("D30", "Mul does not round after an exponent-limit error",
  "Mul rounded the destination's stale exponent after a system exponent-limit error, so the Condition depended on the destination: Mul(d, 0.9, 0E-100000)",
  {"C05": [{"op": "mul", "ctx": ctx(1, 1, 0, "down"), "x": dec(9, -1), "y": dec(0, -100000), "pattern": "d=x", "which": 0}]}),
 ("D31", "Rem with an infinite divisor rounds its result",
  "Rem(x, Infinity) copied x without applying the context: Rem(900, Inf) with MaxExponent 1 returned 900",
  {"C08": [{"op": "rem", "ctx": ctx(1, 1, 0, "down"), "x": dec(9, 2), "y": INF, "cx": "+odd", "cy": "+Inf"}]}),
 ("D33", "Exp raises its working precision enough for arguments just above a multiple of 23",
  "Exp reported Overflow for arguments a hair above a multiple of 23 (the working precision was derived from |x| rounded to a float64): Exp(3611.0000000000000000001) P=41 Emax=100000 returned Infinity",
  {"C12": [ar("exp", ctx(41, 100000, -100000, "down"), dec("36110000000000000000001", -19)), ar("exp", ctx(41, 100000, -100000, "down"), dec("98900000000000004", -14)),
           ar("exp", ctx(5, 1000, -1000, "half_even"), dec("11500000000000000000001", -20))]}),
 ("D51", "Ln's guard digits grow with the length of the precision",
  "Ln worked with two guard digits at every precision; its power series near 1 takes about as many terms as the precision has digits and their rounding errors add up to more than a tenth of an ulp at precisions in the thousands: Ln(0.5) at Precision 2045 under Round05Up, and Ln(0.9) at Precision 2052 under RoundDown, were more than 1.1 ulp from the true value (found by C12's thorough tier once the high-precision class was drawn twice as often)",
  {"C12": [ar("ln", ctx(2045, 10000, -10000, "05up"), dec(5, -1)), ar("ln", ctx(2052, 10000, -10000, "down"), dec(9, -1))]}),
 ("D50", "Exp of an argument whose square is below the working precision is 1 + x",
  "Exp failed with 'exponent out of range' for tiny arguments at precisions beyond about 50000, where the terms of its series (numbers of Precision digits around the size of x) have exponents below the package's MinExponent although the result is 1 + x: Exp(-7E-50001) at Precision 50001, Exp(1E-60000) at Precision 60005 (found by hand while extending C12's near-one classes to precisions around the size of the difference; C12 now draws that class for Exp too)",
  {"C12": [ar("exp", ctx(50001, 1000, -1000, "floor"), dec(7, -50001, True)), ar("exp", ctx(60005, 100000, -100000, "half_even"), dec(1, -60000))]}),
 ("D49", "Exp keeps track of which side of a power of ten a result came from",
  "Exp returned exactly 1 for arguments below a unit of the working precision, losing the side: Exp(-0.09) at Precision 1, MinExponent 0, RoundDown returned 1 with Inexact|Rounded where the true value 0.914 rounds down to 0.9 and is subnormal (found when C12 began to derive Subnormal from the enclosure)",
  {"C12": [ar("exp", ctx(1, 1, 0, "down"), dec(9, -2, True)), ar("exp", ctx(1, 0, 0, "down"), dec(23025851, -9, True)), ar("exp", ctx(1, 0, -100000, "half_up"), dec("230258532325256", -9, True))]}),
 ("D48", "Exp estimates its number of series terms without leaving the float64 range",
  "Exp returned exactly 1 for arguments below about 1E-308 at precisions that can still represent 1+x (the series' term-count estimate divides by the argument converted to float64, which underflows to 0): Exp(1E-330) at Precision 400, Exp(9E-307) at Precision 512 (remarked by a seeding sub-agent; C12's high-precision class extended to tiny arguments)",
  {"C12": [ar("exp", ctx(512, 10000, -10000, "down"), dec(9, -307)), ar("exp", ctx(400, 10000, -10000, "half_even"), dec(1, -330))]}),
 ("D47", "Exp's underflow result carries an exponent the package can represent",
  "Exp's underflow answer was a zero with exponent Etiny even when that lies below the package's MinExponent: Exp(-4E+99999) at Precision 2, MinExponent -100000 returned 0E-100001, whose String() the parser rejects (found by C13's new class: whatever an operation returns must round-trip)",
  {"C13": [{"kind": "result", "x": Z, "dirty": Z, "cap": 0, "bits": 0, "op": ar("exp", ctx(2, 100000, -100000, "up"), dec(4, 99999, True))}]}),
 ("D46", "Ln stops its power series when every further term is negligible",
  "Ln (and Log10, Pow through it) failed with 'exponent out of range' for arguments within about 1E-33322 of 1, whose logarithm is far inside the range: Ln(1+1E-33322) at Precision 16 (found when a generator class for a seeded hang in that loop was added)",
  {"C12": [ar("ln", ctx(16, 100000, -100000, "half_even"), dec("1" + "0" * 33321 + "1", -33322)),
           ar("log10", ctx(1, 100000, -100000, "down"), dec("9" * 45000, -45000))]}),
 ("D45", "Cbrt reports Subnormal for an exact subnormal root",
  "Cbrt's exact-cube path returned no condition at all: Cbrt(1E-3) at Precision 2, MinExponent 0 returned 0.1 (below 10^MinExponent) without Subnormal (remarked by a seeding sub-agent reading the code; C02 now derives the conditions of exact cube roots)",
  {"C02": [ar("cbrt", ctx(2, 2, 0, "down"), dec(1, -3), note="composite"), ar("cbrt", ctx(9, 9, 0, "down"), dec(10, -4), note="composite")]}),
 ("D44", "QuoInteger applies the context's exponent range to its result",
  "QuoInteger returned integers above the context's exponent range when MaxExponent < Precision-1: QuoInteger(90, 9) at Precision 2, MaxExponent 0 returned 10 with no condition (found once contexts with MaxExponent below Precision were generated)",
  {"C07": [ar("quointeger", ctx(2, 0, 0, "down"), dec(9, 1), dec(9))],
   "C10": [ar("quointeger", ctx(2, 0, 0, "down"), dec(891), dec(9))]}),
 ("D43", "quantize does not apply MaxExponent to its rescaled intermediate",
  "Quantize returned NaN/InvalidOperation for representable results when MaxExponent is below the number of coefficient digits of the result: Quantize(123.45, -1) at Precision 5, MaxExponent 2 (first remarked by a seeding sub-agent; found by C09 once contexts with MaxExponent below Precision were generated)",
  {"C09": [ar("quantize", ctx(5, 2, -5, "half_even"), dec(9997, -2), qexp=-1), ar("quantize", ctx(2, 0, 0, "down"), dec(999, -2), qexp=-1)]}),
 ("D42", "Pow sizes its working precision by the length of the exponent",
  "Pow allowed for an exponent of at most 6 digits when sizing the working precision of its integer power, so long integer exponents gave results several units off: Pow(1.0000000000001, -99999999999) at Precision 41 was 4.9 ulp from the true value (found when a generator class for a seeded mutant of the same constant was added)",
  {"C12": [ar("pow", ctx(41, 1000, -1000, "down"), dec("10000000000001", -13), dec("99999999999", 0, True)),
           ar("pow", ctx(21, 1000, -1000, "down"), dec("10000000000049", -13), dec("99999999999", 0))]}),
 ("D41", "the parser applies the exponent limits to the value's exponent, not to its parts",
  "strings with more than 100000 fraction digits were rejected as out of range although their exponent and adjusted exponent are inside the limits: \".333...3E2\" with 100002 fraction digits (exponent -100000, adjusted exponent 1); first remarked by a seeding sub-agent, then found by C14's new huge-mantissa class",
  {"C14": [{"kind": "parse", "x": Z, "s": "." + "3" * 100002 + "E2", "src": "grammar", "verb": "", "flags": "", "width": 0}]}),
 ("D40", "Context.Neg returns -0 for +0 when rounding toward negative infinity",
  "Context.Neg(+0) returned +0 under RoundFloor; the specification's minus is 0 - x, whose exact zero result is -0 in that mode (found by the differential comparison with Python's decimal module; my own tables had left this cell unasserted)",
  {"C08": [{"op": "neg", "ctx": ctx(1, 1, 0, "floor"), "x": dec(0), "y": Z, "cx": "+0", "cy": ""}],
   "C01": [ar("neg", ctx(5, 99, -99, "floor"), dec(0, 3))]}),
 ("D39", "Pow leaves NaN in the destination when the fractional power fails",
  "a Pow call that failed inside its fractional part (here through the open finding D25: ln(9E100000)*0.9 = 207234 is beyond Exp) left x**integ(y) in a distinct destination but left the destination untouched when it was also the operand: Pow(d, 9E+100000, 0.9) with d==x",
  {"C05": [{"op": "pow", "ctx": ctx(1, 100000, 0, "down"), "x": dec(9, 100000), "y": dec(9, -1), "pattern": "d=x", "which": 0}]}),
 ("D37", "composite operations raise Underflow (and Rounded) with their forced Inexact",
  "Exp, Ln and Pow returned Inexact|Subnormal without Underflow when their final rounding removed only zeros (Exp(-0.001) P=4 Emin=0 down; Pow(-0.9999999999999, 2) P=14 Emin=0), and Inexact without Rounded (Pow(1, 0.5) P=1)",
  {"C02": [ar("exp", ctx(4, 4, 0, "down"), dec(1, -3, True), note="composite"), ar("ln", ctx(2, 2, -3, "down"), dec(9999, -4), note="composite"),
           ar("pow", ctx(14, 14, 0, "down"), dec(9999999999999, -13, True), dec(2)), ar("pow", ctx(1, 1, 0, "down"), dec(1), dec(5, -1), note="composite")]}),
 ("D38", "integerPower raises the exact reciprocal for negative exponents when there is one",
  "Pow with a negative integer exponent reported Inexact although the returned value was the exact result, when x**|y| needs more digits than the working precision but its reciprocal fits: Pow(-0.5, -30) at Precision 10 returned 1073741824 = 2^30 with Inexact|Rounded (first recorded as an open finding; repaired by raising 1/x when that is exact)",
  {"C02": [ar("pow", ctx(10, 10, 0, "down"), dec(5, -1, True), dec(30, 0, True))]}),
 ("D36", "integerPower reports the right direction when a negative power leaves the range",
  "Pow with a negative integer exponent reported Underflow when x**|y| underflowed although the result (its reciprocal) overflows: Pow(1.9E-1112, -90) failed with SystemUnderflow|Underflow for a value of 8.2E+100054",
  {"C12": [ar("pow", ctx(1, 100000, -100000, "down"), dec(19, -1113), dec(9, 1, True))]}),
 ("D35", "Ln uses its power series up to |x-1| = 0.5",
  "Ln was more than one ulp off in round-to-nearest modes just outside its power-series range (cancellation against ln 10 costs more than the two guard digits): Ln(1.10099) at Precision 4 half_up returned 0.09622 for 0.0962098",
  {"C12": [ar("ln", ctx(4, 100000, -100000, "half_up"), dec(110099, -5))]}),
 ("D34", "Cbrt reduces the decimal exponent before the binary range reduction",
  "Cbrt failed with 'did not converge' for operands with large exponents at low precision (accumulated rounding of tens of thousands of multiplications by 8): Cbrt(9E-50000) at Precision 1",
  {"C11": [ar("cbrt", ctx(1, 1, -100000, "down"), dec(9, -50000)), ar("cbrt", ctx(1, 1, -100000, "down"), dec(729, -50002))]}),
 ("D32", "Ln computes its intermediate values in the full exponent range",
  "Ln failed to converge under a narrow exponent range: Ln(5.69) with Precision 21, MinExponent 0 returned 'did not converge after 32 iterations'",
  {"C12": [ar("ln", ctx(21, 21, 0, "down"), dec(569, -2))]}),
]

def commit_of(subject):
    out = subprocess.run(["git", "-C", "/repo", "log", "--format=%h %s", "--fixed-strings", "--grep", subject], capture_output=True, text=True).stdout.strip().splitlines()
    out = [l for l in out if l.split(" ", 1)[1].startswith("fix:")]
    if len(out) != 1:
        sys.exit("cannot identify the fix commit for %r: %s" % (subject, out))
    return out[0].split()[0]

lines = []
for fid, subject, what, wit in F:
    status = "fixed" if subject else "open"
    commit = commit_of(subject) if subject else None
    for prop, cases in wit.items():
        for w in cases:
            rec = {"property": prop, "id": fid, "status": status}
            if commit:
                rec["commit"] = commit
                rec["what"] = "fixed: property=%s %s %s" % (prop, commit, what)
            else:
                rec["what"] = what
            rec["witness"] = w
            lines.append(json.dumps(rec, ensure_ascii=False))
open("/verif/known_findings.jsonl", "w").write("\n".join(lines) + "\n")
print("wrote %d records for %d findings" % (len(lines), len(F)))
