#!/usr/bin/env python3
"""Regenerate /verif/MANIFEST.json from properties.jsonl and harness/cNN/meta.json."""
import json, os, subprocess
V = "/verif"
props = [json.loads(l) for l in open(V + "/properties.jsonl")]
TECH = {
 "C01": "property-based testing (rapid) against an exact-rational round-once reference model",
 "C02": "property-based testing (rapid): flags derived from the exact result by a reference model, plus alias-invariance of flags",
 "C07": "property-based testing (rapid): invariant (validity predicate) over every generated result",
 "C09": "property-based testing (rapid) against exact integer division with remainder",
 "C10": "property-based testing (rapid): big-integer reference plus the division identity evaluated on the implementation's own outputs",
 "C19": "exhaustive enumeration of NumDigits boundaries plus property-based testing (rapid) against text length / reference stripping",
 "C20": "metamorphic property-based testing (rapid): eight rounding modes and operand transformations compared with each other",
}
hooks_commit = subprocess.run("git -C /repo log --format=%h -n1 -- verif_hooks.go", shell=True, capture_output=True, text=True).stdout.strip()
man = {
 "version": 1,
 "setup_cmd": "./check --setup",
 "hooks": {"guard": "verif (Go build tag)",
           "enable": "go test -tags verif in /verif/harness, whose go.mod replaces github.com/cockroachdb/apd/v3 with /repo's working tree",
           "baseline_off_cmd": "python3 /verif/tools/baseline_check.py /repo",
           "source_commits": [hooks_commit], "add_only": True},
 "engines": [{"name": "rapid-harness", "path": "/verif/harness", "serves_properties": [],
              "kind_free_text": "property-based testing with pgregory.net/rapid v1.3.0 (seeded, sharded over processes), native go fuzzing in the thorough tier where listed, explicit reference models written against math/big; driver /verif/check"}],
 "checks": [], "not_applicable": [],
 "notes": "Design and per-property oracles: DESIGN.md. Known findings (fixed/open) with witnesses: known_findings.jsonl. Seeded mutants and which checks catch them: seeded/*/detect.json and DESIGN.md section 6.",
}
for p in props:
    pid = p["id"]
    mp = "%s/harness/%s/meta.json" % (V, pid.lower())
    if os.path.exists(mp):
        m = json.load(open(mp))
        man["engines"][0]["serves_properties"].append(pid)
        chk = {
         "property_id": pid,
         "quick_cmd": "./check %s --tier quick" % pid,
         "thorough_cmd": "./check %s --tier thorough" % pid,
         "evidence_file": "/verif/evidence/%s.json" % pid,
         "replay_cmd_template": "./check %s --replay {path}" % pid,
         "engine": "rapid-harness",
         "level_claimed": {"category": "exploration",
                           "text": m.get("level_text", "generated-input search against an explicit oracle; it finds violations and reports what it covered, it never proves absence"),
                           "design_ref": "DESIGN.md section 4, " + pid},
         "level_note": m.get("level_note", "; ".join(m.get("assumptions", []))[:600]),
         "technique": m.get("technique", TECH.get(pid, "property-based testing (rapid)")),
        }
        man["checks"].append(chk)
    else:
        man["not_applicable"].append({"property_id": pid, "reason": "check not built yet (work in progress; the technique applies, see DESIGN.md section 4)"})
json.dump(man, open(V + "/MANIFEST.json", "w"), indent=1)
print("checks:", [c["property_id"] for c in man["checks"]])
print("not_applicable:", [c["property_id"] for c in man["not_applicable"]])
