#!/bin/bash
# usage: with_patch.sh [-R] <patch-file|commit> <prop> [<prop>...] [-- extra check args]
# Applies a patch (or, with a commit id, the reverse of that commit) to /repo's working
# tree, runs the quick checks of the given properties, and restores /repo afterwards.
set -u
export VERIF_NO_EVIDENCE=1
REV=""
if [ "$1" = "-R" ]; then REV="-R"; shift; fi
SRC="$1"; shift
cd /repo
if [ -n "$(git status --porcelain)" ]; then echo "repo not clean"; exit 2; fi
if [ -f "$SRC" ]; then
  git apply $REV "$SRC" || { echo "patch does not apply"; exit 2; }
else
  git diff "$SRC~1" "$SRC" | git apply -R || { echo "reverse of $SRC does not apply"; git checkout -- .; exit 2; }
fi
PROPS=(); EXTRA=()
while [ $# -gt 0 ]; do if [ "$1" = "--" ]; then shift; EXTRA=("$@"); break; fi; PROPS+=("$1"); shift; done
cd /verif
for p in "${PROPS[@]}"; do
  out=$(./check "$p" "${EXTRA[@]}" 2>&1); rc=$?
  echo "== $p exit=$rc"
  echo "$out" | grep -E "VIOLATION|cause:|INFRA|KNOWN" | head -4
done
cd /repo && git checkout -- . && git status --porcelain
