#!/usr/bin/env python3
"""Write /verif/seeded/README.md: one row per confirmed mutant with what it needs to manifest
(first lines of the sub-agent's notes) and which checks detected it (detect.json)."""
import json, glob, os, re
rows = []
for d in sorted(glob.glob("/verif/seeded/*/")):
    mp = os.path.join(d, "meta.json")
    if not os.path.exists(mp):
        continue
    meta = json.load(open(mp))
    det = {}
    if os.path.exists(os.path.join(d, "detect.json")):
        det = json.load(open(os.path.join(d, "detect.json")))
    patch = open(os.path.join(d, "patch.diff")).read()
    files = sorted(set(re.findall(r"^\+\+\+ b/(\S+)", patch, re.M)))
    caught = [p + (" (thorough tier only)" if r.get("tier") == "thorough" else "") for p, r in det.items() if r.get("detected")]
    missed = [p for p, r in det.items() if r.get("exit") == 0]
    summary = ""
    np_ = os.path.join(d, "notes.md")
    if os.path.exists(np_):
        txt = open(np_).read()
        m = re.search(r"(?im)^(?:#+\s*)?(?:what|change|mutation)[^\n]*\n+(.{20,400}?)(?:\n\n|\Z)", txt, re.S)
        summary = (m.group(1) if m else txt[:300]).replace("\n", " ").replace("|", "/")[:260]
    rows.append((meta["id"], meta["breaks_property"], ", ".join(files), ", ".join(caught) or "-", ", ".join(missed) or "-", summary))
with open("/verif/seeded/README.md", "w") as f:
    f.write("# Seeded mutants (written by independent sub-agents, confirmed by tools/seed_confirm.py)\n\n")
    f.write("Each directory holds patch.diff, demo_test.go (fails with the patch, passes without), notes.md (what it needs to manifest), meta.json (confirmation) and detect.json (outcome of the quick checks built against a scratch worktree of /repo with the patch applied, written by tools/seed_detect.py).\n\n")
    f.write("| mutant | targets | files | detected by (quick tier unless noted) | run but not detected by | what it is (from notes.md) |\n|---|---|---|---|---|---|\n")
    for r in rows:
        f.write("| %s | %s | %s | %s | %s | %s |\n" % r)
    n = len(rows); c = sum(1 for r in rows if any(x.split(" ")[0] == r[1] for x in r[3].split(", ")))
    f.write("\n%d mutants; %d detected by the check of the property they target.\n" % (n, c))
print("rows", len(rows))
